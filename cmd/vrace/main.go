// vrace is leg B of C09: the thread bodies of the interleaving exploration run as free
// goroutines in a -race build (the race detector is blind under a cooperative scheduler,
// whose hand-offs are happens-before edges). It samples schedules; any race report makes the
// process exit with GORACE's exit code. Prints one JSON line at the end.
package main

import (
	"encoding/json"
	"fmt"
	"os"
	"runtime"
	"strconv"
	"sync"

	"verif/checks"
)

func main() {
	iters := 150
	if len(os.Args) > 1 {
		if v, err := strconv.Atoi(os.Args[1]); err == nil {
			iters = v
		}
	}
	if err := checks.C09Setup(); err != nil {
		fmt.Println(err)
		os.Exit(2)
	}
	// every body, sequentially first
	var names []string
	seen := map[string]bool{}
	for _, sc := range checks.C09Scenarios(false) {
		for _, n := range sc {
			if len(n) > 0 && n[0] == '!' {
				continue // scenario marker, not a body
			}
			if !seen[n] {
				seen[n] = true
				names = append(names, n)
			}
		}
	}
	seq := map[string]string{}
	for _, n := range names {
		seq[n] = checks.C09Body(n)()
	}
	runs, mismatches := 0, 0
	var firstMismatch string
	for _, procs := range []int{2, 4, 16} {
		runtime.GOMAXPROCS(procs)
		for _, g := range []int{2, 4, 8, 16} {
			// (each goroutine keeps its own tally: a shared lock after every body would order the bodies of
			// different goroutines one after the other and hide their unsynchronised accesses from the detector)
			var wg sync.WaitGroup
			type tally struct {
				runs, mismatches int
				first            string
			}
			tallies := make([]tally, g)
			for t := 0; t < g; t++ {
				t := t
				wg.Add(1)
				go func() {
					defer wg.Done()
					my := &tallies[t]
					for i := 0; i < iters/g+1; i++ {
						n := names[(t*7+i)%len(names)]
						obs := checks.C09Body(n)()
						my.runs++
						if obs != seq[n] {
							my.mismatches++
							if my.first == "" {
								my.first = fmt.Sprintf("%s: concurrent %q, sequential %q", n, obs, seq[n])
							}
						}
					}
				}()
			}
			wg.Wait()
			for _, ty := range tallies {
				runs += ty.runs
				mismatches += ty.mismatches
				if firstMismatch == "" {
					firstMismatch = ty.first
				}
			}
		}
	}
	// cold rounds: the shared trees are parsed anew and the very first evaluations of them are the
	// concurrent ones (per-node state that is filled lazily is only racy while it is cold)
	var evals []string
	for _, n := range names {
		if len(n) > 4 && (n[:5] == "eval:" || n[:5] == "field") {
			evals = append(evals, n)
		}
	}
	runtime.GOMAXPROCS(16)
	for round := 0; round < 40; round++ {
		if err := checks.C09Setup(); err != nil {
			fmt.Println(err)
			os.Exit(2)
		}
		var wg sync.WaitGroup
		var start sync.WaitGroup
		start.Add(1)
		var coldRuns, coldMis [8]int
		var coldFirst [8]string
		for t := 0; t < 8; t++ {
			t := t
			wg.Add(1)
			go func() {
				defer wg.Done()
				start.Wait()
				for i := range evals {
					n := evals[(i+t)%len(evals)]
					obs := checks.C09Body(n)()
					coldRuns[t]++
					if obs != seq[n] {
						coldMis[t]++
						if coldFirst[t] == "" {
							coldFirst[t] = fmt.Sprintf("cold round %d, %s: concurrent %q, sequential %q", round, n, obs, seq[n])
						}
					}
				}
			}()
		}
		start.Done()
		wg.Wait()
		for t := 0; t < 8; t++ {
			runs += coldRuns[t]
			mismatches += coldMis[t]
			if firstMismatch == "" {
				firstMismatch = coldFirst[t]
			}
		}
	}
	// deep + concurrent: G goroutines are all inside one deeply nested shared formula at the same
	// time (a barrier host function at the innermost level makes the overlap certain)
	deepRuns, deepMismatch := checks.C09DeepBarrier(16, 600)
	runs += deepRuns
	if deepMismatch != "" {
		mismatches++
		if firstMismatch == "" {
			firstMismatch = deepMismatch
		}
	}
	changed := checks.C09SharedUnchanged()
	rep := map[string]interface{}{
		"ok": mismatches == 0 && changed == "", "body_executions": runs, "bodies": len(names), "mismatches": mismatches,
		"goroutines": []int{2, 4, 8, 16}, "gomaxprocs": []int{2, 4, 16}, "race_detector": true, "exhaustive": false,
	}
	if firstMismatch != "" {
		rep["first_mismatch"] = firstMismatch
	}
	if changed != "" {
		rep["shared_tree_changed"] = changed
	}
	b, _ := json.Marshal(rep)
	fmt.Println(string(b))
	if rep["ok"] != true {
		os.Exit(1)
	}
}
