package main

import (
	"os"

	"verif/checks"
	"verif/internal/eng"
)

func main() {
	if len(os.Args) >= 4 && os.Args[1] == "-c08obs" {
		checks.C08ChildMain(os.Args[2:])
		return
	}
	eng.Main()
}
