package main

import (
	_ "verif/checks"
	"verif/internal/eng"
)

func main() { eng.Main() }
