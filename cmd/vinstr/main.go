// vinstr instruments a scratch copy of the package under test (never /repo itself) and
// writes a go-build overlay file. Inserted, purely syntactically:
//   - verifPoint("<file>:<line>") as first statement of every function, method and
//     function literal (step counter + scheduler yield point);
//   - verifStep() as first statement of every for/range body (step counter);
//   - an extra verifPoint before every statement of a block that mentions a package-level
//     variable (the places where shared state can be touched);
//   - one generated file zz_verif.go with the hook variables and VerifGlobals().
//
// usage: vinstr <package-dir> <out-dir>
package main

import (
	"bytes"
	"encoding/json"
	"fmt"
	"go/ast"
	"go/parser"
	"go/printer"
	"go/token"
	"os"
	"path/filepath"
	"sort"
	"strconv"
	"strings"
)

func main() {
	if len(os.Args) < 3 {
		fmt.Fprintln(os.Stderr, "usage: vinstr <package-dir> <out-dir>")
		os.Exit(2)
	}
	pkgDir, outDir := os.Args[1], os.Args[2]
	if err := os.MkdirAll(outDir, 0755); err != nil {
		fatal(err)
	}
	entries, err := os.ReadDir(pkgDir)
	if err != nil {
		fatal(err)
	}
	fset := token.NewFileSet()
	type pf struct {
		name string
		f    *ast.File
	}
	var files []pf
	pkgName := ""
	globals := map[string]bool{}
	for _, e := range entries {
		n := e.Name()
		if e.IsDir() || !strings.HasSuffix(n, ".go") || strings.HasSuffix(n, "_test.go") || strings.HasPrefix(n, "zz_verif") {
			continue
		}
		f, err := parser.ParseFile(fset, filepath.Join(pkgDir, n), nil, 0) // comments dropped: inserted nodes have no positions
		if err != nil {
			fatal(err)
		}
		pkgName = f.Name.Name
		files = append(files, pf{n, f})
		for _, d := range f.Decls {
			gd, ok := d.(*ast.GenDecl)
			if !ok || gd.Tok != token.VAR {
				continue
			}
			for _, s := range gd.Specs {
				for _, id := range s.(*ast.ValueSpec).Names {
					if id.Name != "_" {
						globals[id.Name] = true
					}
				}
			}
		}
	}
	overlay := map[string]string{}
	points := 0
	for _, p := range files {
		points += instrument(fset, p.f, p.name, globals)
		var buf bytes.Buffer
		if err := printer.Fprint(&buf, fset, p.f); err != nil {
			fatal(fmt.Errorf("%s: %v", p.name, err))
		}
		out := filepath.Join(outDir, p.name)
		// keep build constraints of the original file
		if orig, err := os.ReadFile(filepath.Join(pkgDir, p.name)); err == nil {
			for _, line := range strings.Split(string(orig), "\n") {
				if strings.HasPrefix(line, "//go:build ") {
					buf2 := append([]byte(line+"\n\n"), buf.Bytes()...)
					buf.Reset()
					buf.Write(buf2)
					break
				}
				if strings.HasPrefix(line, "package ") {
					break
				}
			}
		}
		if err := os.WriteFile(out, buf.Bytes(), 0644); err != nil {
			fatal(err)
		}
		abs, _ := filepath.Abs(filepath.Join(pkgDir, p.name))
		overlay[abs] = out
	}
	var gl []string
	for g := range globals {
		gl = append(gl, g)
	}
	sort.Strings(gl)
	zz := filepath.Join(outDir, "zz_verif.go")
	if err := os.WriteFile(zz, []byte(genZZ(pkgName, gl)), 0644); err != nil {
		fatal(err)
	}
	abs, _ := filepath.Abs(filepath.Join(pkgDir, "zz_verif.go"))
	overlay[abs] = zz
	b, _ := json.MarshalIndent(map[string]interface{}{"Replace": overlay}, "", " ")
	if err := os.WriteFile(filepath.Join(outDir, "overlay.json"), b, 0644); err != nil {
		fatal(err)
	}
	fmt.Printf("vinstr: %d files, %d insertion points, %d package-level variables\n", len(files), points, len(gl))
}

func fatal(err error) {
	fmt.Fprintln(os.Stderr, "vinstr:", err)
	os.Exit(1)
}

func call(name string, arg string) ast.Stmt {
	c := &ast.CallExpr{Fun: ast.NewIdent(name)}
	if arg != "" {
		c.Args = []ast.Expr{&ast.BasicLit{Kind: token.STRING, Value: strconv.Quote(arg)}}
	}
	return &ast.ExprStmt{X: c}
}

func mentionsGlobal(n ast.Node, globals map[string]bool) bool {
	found := false
	ast.Inspect(n, func(x ast.Node) bool {
		if found {
			return false
		}
		switch v := x.(type) {
		case *ast.FuncLit:
			return false // its own body is instrumented separately
		case *ast.SelectorExpr:
			// x.Sel is a field/method name, only x.X can be a package-level variable
			if mentionsGlobal(v.X, globals) {
				found = true
			}
			return false
		case *ast.KeyValueExpr:
			if mentionsGlobal(v.Value, globals) {
				found = true
			}
			return false
		case *ast.Ident:
			if globals[v.Name] {
				found = true
			}
		}
		return true
	})
	return found
}

func instrument(fset *token.FileSet, f *ast.File, fname string, globals map[string]bool) int {
	points := 0
	loc := func(p token.Pos) string {
		return fname + ":" + strconv.Itoa(fset.Position(p).Line)
	}
	var doBlock func(b *ast.BlockStmt)
	doBlock = func(b *ast.BlockStmt) {
		if b == nil {
			return
		}
		var out []ast.Stmt
		for _, s := range b.List {
			// only the statement's own header counts, nested blocks get their own points
			if headerMentionsGlobal(s, globals) {
				out = append(out, call("verifPoint", loc(s.Pos())))
				points++
			}
			out = append(out, s)
		}
		b.List = out
	}
	ast.Inspect(f, func(n ast.Node) bool {
		switch v := n.(type) {
		case *ast.FuncDecl:
			if v.Body == nil || (v.Recv == nil && v.Name.Name == "init") {
				return false
			}
		}
		return true
	})
	// pass 1: blocks (statement-level points), innermost first is not required
	ast.Inspect(f, func(n ast.Node) bool {
		switch v := n.(type) {
		case *ast.FuncDecl:
			if v.Recv == nil && v.Name.Name == "init" {
				return false
			}
		case *ast.BlockStmt:
			doBlock(v)
		case *ast.CaseClause:
			var out []ast.Stmt
			for _, s := range v.Body {
				if headerMentionsGlobal(s, globals) {
					out = append(out, call("verifPoint", loc(s.Pos())))
					points++
				}
				out = append(out, s)
			}
			v.Body = out
		}
		return true
	})
	// pass 1b: blocking primitives become cooperative shims so that waiting is visible to the scheduler
	usesSync := false
	ast.Inspect(f, func(n ast.Node) bool {
		rewrite := func(e *ast.Expr) {
			if se, ok := (*e).(*ast.SelectorExpr); ok {
				if x, ok := se.X.(*ast.Ident); ok && x.Name == "sync" {
					usesSync = true
					switch se.Sel.Name {
					case "Mutex":
						*e = ast.NewIdent("VerifMutex")
					case "RWMutex":
						*e = ast.NewIdent("VerifRWMutex")
					case "Once":
						*e = ast.NewIdent("VerifOnce")
					case "Pool":
						*e = ast.NewIdent("VerifPool")
					}
				}
			}
		}
		switch v := n.(type) {
		case *ast.Field:
			rewrite(&v.Type)
		case *ast.ValueSpec:
			if v.Type != nil {
				rewrite(&v.Type)
			}
		case *ast.CompositeLit:
			if v.Type != nil {
				rewrite(&v.Type)
			}
		case *ast.StarExpr:
			rewrite(&v.X)
		case *ast.ArrayType:
			rewrite(&v.Elt)
		case *ast.MapType:
			rewrite(&v.Value)
		case *ast.TypeSpec:
			rewrite(&v.Type)
		case *ast.CallExpr:
			// new(sync.Mutex)
			for i := range v.Args {
				rewrite(&v.Args[i])
			}
		}
		return true
	})
	if usesSync {
		// keep the import used even if every reference was rewritten
		f.Decls = append(f.Decls, &ast.GenDecl{Tok: token.VAR, Specs: []ast.Spec{&ast.ValueSpec{Names: []*ast.Ident{ast.NewIdent("_")}, Type: &ast.SelectorExpr{X: ast.NewIdent("sync"), Sel: ast.NewIdent("Locker")}}}})
	}
	// pass 2: function entries and loop bodies
	ast.Inspect(f, func(n ast.Node) bool {
		switch v := n.(type) {
		case *ast.FuncDecl:
			if v.Body == nil || (v.Recv == nil && v.Name.Name == "init") {
				return false
			}
			v.Body.List = append([]ast.Stmt{call("verifPoint", loc(v.Pos()))}, v.Body.List...)
			points++
		case *ast.FuncLit:
			v.Body.List = append([]ast.Stmt{call("verifPoint", loc(v.Pos()))}, v.Body.List...)
			points++
		case *ast.ForStmt:
			v.Body.List = append([]ast.Stmt{call("verifStep", "")}, v.Body.List...)
			points++
		case *ast.RangeStmt:
			v.Body.List = append([]ast.Stmt{call("verifStep", "")}, v.Body.List...)
			points++
		}
		return true
	})
	return points
}

// headerMentionsGlobal looks at a statement without descending into nested blocks.
func headerMentionsGlobal(s ast.Stmt, globals map[string]bool) bool {
	switch v := s.(type) {
	case *ast.BlockStmt:
		return false
	case *ast.IfStmt:
		return (v.Init != nil && mentionsGlobal(v.Init, globals)) || mentionsGlobal(v.Cond, globals)
	case *ast.ForStmt:
		return (v.Init != nil && mentionsGlobal(v.Init, globals)) || (v.Cond != nil && mentionsGlobal(v.Cond, globals)) || (v.Post != nil && mentionsGlobal(v.Post, globals))
	case *ast.RangeStmt:
		return mentionsGlobal(v.X, globals)
	case *ast.SwitchStmt:
		return (v.Init != nil && mentionsGlobal(v.Init, globals)) || (v.Tag != nil && mentionsGlobal(v.Tag, globals))
	case *ast.TypeSwitchStmt:
		return (v.Init != nil && mentionsGlobal(v.Init, globals)) || mentionsGlobal(v.Assign, globals)
	case *ast.SelectStmt, *ast.LabeledStmt, *ast.DeclStmt, *ast.CaseClause, *ast.CommClause:
		return false
	default:
		return mentionsGlobal(s, globals)
	}
}

func genZZ(pkg string, globals []string) string {
	var b strings.Builder
	b.WriteString("// Code generated by vinstr (verification overlay); never part of the repository.\n\n")
	b.WriteString("package " + pkg + "\n\n")
	b.WriteString(`import (
	"fmt"
	"reflect"
	"sort"
	"strings"
	"sync"
)

// VerifStepHook is called at every function entry and loop iteration.
var VerifStepHook func()

// VerifYieldHook is called at every scheduling point with its source location.
var VerifYieldHook func(loc string)

func verifPoint(loc string) {
	if VerifStepHook != nil {
		VerifStepHook()
	}
	if VerifYieldHook != nil {
		VerifYieldHook(loc)
	}
}

func verifStep() {
	if VerifStepHook != nil {
		VerifStepHook()
	}
}

// VerifBlockHook is called when the running thread cannot proceed (lock held by another
// thread); the scheduler must run another thread. Without a scheduler the shims fall back to
// the real primitives.
var VerifBlockHook func()

// VerifMutex replaces sync.Mutex in the instrumented copy.
type VerifMutex struct {
	held bool
	real sync.Mutex
}

func (m *VerifMutex) Lock() {
	if VerifBlockHook == nil {
		m.real.Lock()
		return
	}
	verifPoint("lock")
	for m.held {
		VerifBlockHook()
	}
	m.held = true
}

func (m *VerifMutex) TryLock() bool {
	if VerifBlockHook == nil {
		return m.real.TryLock()
	}
	if m.held {
		return false
	}
	m.held = true
	return true
}

func (m *VerifMutex) Unlock() {
	if VerifBlockHook == nil {
		m.real.Unlock()
		return
	}
	m.held = false
	verifPoint("unlock")
}

// VerifRWMutex replaces sync.RWMutex.
type VerifRWMutex struct {
	writer  bool
	readers int
	real    sync.RWMutex
}

func (m *VerifRWMutex) Lock() {
	if VerifBlockHook == nil {
		m.real.Lock()
		return
	}
	verifPoint("lock")
	for m.writer || m.readers > 0 {
		VerifBlockHook()
	}
	m.writer = true
}

func (m *VerifRWMutex) Unlock() {
	if VerifBlockHook == nil {
		m.real.Unlock()
		return
	}
	m.writer = false
	verifPoint("unlock")
}

func (m *VerifRWMutex) RLock() {
	if VerifBlockHook == nil {
		m.real.RLock()
		return
	}
	verifPoint("rlock")
	for m.writer {
		VerifBlockHook()
	}
	m.readers++
}

func (m *VerifRWMutex) RUnlock() {
	if VerifBlockHook == nil {
		m.real.RUnlock()
		return
	}
	m.readers--
	verifPoint("runlock")
}

// VerifPool replaces sync.Pool. The real pool hands out recycled or fresh objects depending on
// the garbage collector and the processor it runs on, which would make the number of scheduling
// points of an execution vary from run to run. Under the scheduler it is a deterministic LIFO
// that the harness empties before every execution (VerifResetPools); objects are still reused
// within an execution, so a pool that hands out dirty objects is still visible.
type VerifPool struct {
	New        func() interface{}
	items      []interface{}
	registered bool
	real       sync.Pool
}

var verifPools []*VerifPool

func (p *VerifPool) Get() interface{} {
	if VerifBlockHook == nil {
		if p.real.New == nil && p.New != nil {
			p.real.New = p.New
		}
		return p.real.Get()
	}
	verifPoint("pool.get")
	if !p.registered {
		p.registered = true
		verifPools = append(verifPools, p)
	}
	if n := len(p.items); n > 0 {
		x := p.items[n-1]
		p.items = p.items[:n-1]
		return x
	}
	if p.New != nil {
		return p.New()
	}
	return nil
}

func (p *VerifPool) Put(x interface{}) {
	if VerifBlockHook == nil {
		p.real.Put(x)
		return
	}
	verifPoint("pool.put")
	if !p.registered {
		p.registered = true
		verifPools = append(verifPools, p)
	}
	p.items = append(p.items, x)
}

// VerifResetPools empties every pool seen so far (called before each controlled execution).
func VerifResetPools() {
	for _, p := range verifPools {
		p.items = nil
	}
}

// VerifOnce replaces sync.Once.
type VerifOnce struct {
	done    bool
	running bool
	real    sync.Once
}

func (o *VerifOnce) Do(f func()) {
	if VerifBlockHook == nil {
		o.real.Do(f)
		return
	}
	verifPoint("once")
	for o.running {
		VerifBlockHook()
	}
	if o.done {
		return
	}
	o.running = true
	defer func() { o.done, o.running = true, false }()
	f()
}

func verifDump(b *strings.Builder, name string, v interface{}) {
	b.WriteString(name)
	b.WriteByte('=')
	switch m := v.(type) {
	case *sync.Map:
		var keys []string
		m.Range(func(k, val interface{}) bool {
			s := fmt.Sprintf("%v", k)
			rv := reflect.ValueOf(val)
			if rv.IsValid() && rv.Kind() == reflect.Func {
				s += ":func"
			} else {
				s += fmt.Sprintf(":%v", val)
			}
			keys = append(keys, s)
			return true
		})
		sort.Strings(keys)
		b.WriteString(strings.Join(keys, ","))
	default:
		rv := reflect.ValueOf(v)
		for rv.IsValid() && rv.Kind() == reflect.Ptr && !rv.IsNil() {
			rv = rv.Elem()
		}
		if rv.IsValid() && rv.Kind() == reflect.Func {
			b.WriteString("func")
		} else if rv.IsValid() && rv.Kind() == reflect.Map {
			var keys []string
			it := rv.MapRange()
			for it.Next() {
				keys = append(keys, fmt.Sprintf("%v:%v", it.Key(), it.Value()))
			}
			sort.Strings(keys)
			b.WriteString(strings.Join(keys, ","))
		} else if rv.IsValid() && rv.CanInterface() {
			fmt.Fprintf(b, "%+v", rv.Interface())
		} else {
			b.WriteString("?")
		}
	}
	b.WriteByte(';')
}

// VerifGlobals prints every package-level variable (used as part of a state key only).
func VerifGlobals() string {
	var b strings.Builder
`)
	for _, g := range globals {
		if g == "VerifStepHook" || g == "VerifYieldHook" || g == "VerifBlockHook" || g == "verifPools" {
			continue
		}
		fmt.Fprintf(&b, "\tverifDump(&b, %q, &%s)\n", g, g)
	}
	b.WriteString("\treturn b.String()\n}\n")
	return b.String()
}
