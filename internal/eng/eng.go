// Package eng is the exploration engine shared by all checks: it shards a
// deterministic enumeration over worker processes, counts what was covered,
// re-judges every failure before believing it, matches failures against the
// committed known-findings file and writes the evidence file.
package eng

import (
	"crypto/sha1"
	"encoding/hex"
	"encoding/json"
	"fmt"
	"hash/fnv"
	"os"
	"os/exec"
	"path/filepath"
	"runtime"
	"runtime/debug"
	"sort"
	"strconv"
	"strings"
	"sync/atomic"
	"syscall"
	"time"
)

// Fail is one judged failure of one case.
type Fail struct {
	Key string `json:"key"` // narrow key used to match known findings
	Msg string `json:"msg"`
}

// F builds a Fail.
func F(key, format string, args ...interface{}) *Fail {
	return &Fail{Key: key, Msg: fmt.Sprintf(format, args...)}
}

type failRec struct {
	Kind string          `json:"kind"`
	Key  string          `json:"key"`
	Msg  string          `json:"msg"`
	Case json.RawMessage `json:"case"`
}

// Check is one registered property check.
type Check struct {
	ID          string
	Title       string
	Rule        string
	TrustedBase []string
	Assumptions []string
	Run         func(w *W)
	// Env gives extra environment for worker number shard (e.g. TZ).
	Env func(shard int) []string
	// Serial forces a single worker (used by checks that own the scheduler).
	Workers int
	// Post runs in the parent after the workers, with the merged result.
	Post func(p *Parent)

	replay map[string]func(raw json.RawMessage) *Fail
}

var registry = map[string]*Check{}

// Register adds a check.
func Register(c *Check) *Check {
	c.replay = map[string]func(raw json.RawMessage) *Fail{}
	registry[c.ID] = c
	return c
}

// Kind is a typed family of cases with one judge function.
type Kind[C any] struct {
	Name string
	J    func(C) *Fail
}

// NewKind registers a case family; its judge is also the replay function.
func NewKind[C any](c *Check, name string, j func(C) *Fail) *Kind[C] {
	k := &Kind[C]{Name: name, J: j}
	c.replay[name] = func(raw json.RawMessage) *Fail {
		var cs C
		if err := json.Unmarshal(raw, &cs); err != nil {
			return F("harness/replay-unmarshal", "cannot decode case: %v", err)
		}
		return SafeJudge(func() *Fail { return j(cs) })
	}
	return k
}

// SafeJudge converts a panic that escapes the judge itself (a harness bug or an
// escaping panic of the code under test that the judge did not guard) into a failure.
func SafeJudge(f func() *Fail) (res *Fail) {
	defer func() {
		if r := recover(); r != nil {
			res = F("panic/unguarded", "panic escaped: %v\n%s", r, trimStack(debug.Stack()))
		}
	}()
	return f()
}

func trimStack(b []byte) string {
	s := string(b)
	if len(s) > 1800 {
		s = s[:1800] + "..."
	}
	return s
}

// Do judges one case: counts it, re-judges a failure five times, records it.
func (k *Kind[C]) Do(w *W, c C) bool {
	w.cur.Store(&curCase{kind: k.Name, c: c})
	w.res.Evals++
	atomic.AddInt64(&w.progress, 1)
	if w.announce != nil {
		w.doAnnounce(k.Name, c)
	}
	f := SafeJudge(func() *Fail { return k.J(c) })
	if f == nil {
		return true
	}
	// determinism: the same case must fail every time
	for i := 0; i < 5; i++ {
		g := SafeJudge(func() *Fail { return k.J(c) })
		if g == nil {
			raw, _ := json.Marshal(c)
			w.res.Flaky = append(w.res.Flaky, fmt.Sprintf("%s: failure %q did not reproduce on re-run %d for case %s", k.Name, f.Msg, i+1, raw))
			return true
		}
	}
	w.recordFail(k.Name, c, f)
	return false
}

type curCase struct {
	kind string
	c    interface{}
}

// Result is what one worker (or the merged parent) has counted.
type Result struct {
	Evals       int64             `json:"evals"`
	States      int64             `json:"states"`
	Transitions int64             `json:"transitions"`
	Traces      int64             `json:"traces"`
	Outcomes    []uint64          `json:"outcomes"`
	OutcomesCap bool              `json:"outcomes_cap"`
	Samples     []interface{}     `json:"samples"`
	Fails       []failRec         `json:"fails"`
	FailCount   int64             `json:"fail_count"`
	Notes       map[string]int64  `json:"notes"`
	Texts       map[string]string `json:"texts"`
	Capped      []string          `json:"capped"`
	Flaky       []string          `json:"flaky"`
	Done        bool              `json:"done"`
}

// W is the worker-side handle given to Check.Run.
type W struct {
	ID    string
	Tier  string
	Shard int
	N     int
	Seed  int64

	res      Result
	outcomes map[uint64]struct{}
	unit     int64
	progress int64
	cur      atomic.Value
	deadline time.Time
	expired  bool
	tick     int
	announce *os.File
	sampleN  map[string]int
	failKeys map[string]int
}

const maxOutcomes = 1 << 21
const maxFailsPerWorker = 40
const maxFailsPerKey = 3

// Quick reports whether this is the quick tier.
func (w *W) Quick() bool { return w.Tier != "thorough" }

// Take hands out the next unit of work and says whether it belongs to this worker.
func (w *W) Take() bool {
	u := w.unit
	w.unit++
	return int(u%int64(w.N)) == w.Shard
}

// First reports whether this is worker 0 (for tiny serial legs).
func (w *W) First() bool { return w.Shard == 0 }

// Eval counts executions that are judged outside a Kind (e.g. one per explored schedule).
func (w *W) Eval(n int64) {
	w.res.Evals += n
	atomic.AddInt64(&w.progress, n)
}

func (w *W) State(n int64) { w.res.States += n }
func (w *W) Trans(n int64) { w.res.Transitions += n }
func (w *W) Trace(n int64) { w.res.Traces += n }

// Note adds to a named extra counter.
func (w *W) Note(name string, n int64) { w.res.Notes[name] += n }

// NoteMax keeps the maximum of a named gauge.
func (w *W) NoteMax(name string, n int64) {
	if cur, ok := w.res.Notes[name]; !ok || n > cur {
		w.res.Notes[name] = n
	}
}

// Text records a named free-text fact (last writer wins).
func (w *W) Text(name, s string) { w.res.Texts[name] = s }

// Outcome records one outcome class (vacuity guard: distinct classes are counted).
func (w *W) Outcome(s string) {
	h := fnv.New64a()
	h.Write([]byte(s))
	w.OutcomeH(h.Sum64())
}

func (w *W) OutcomeH(h uint64) {
	if len(w.outcomes) >= maxOutcomes {
		if _, ok := w.outcomes[h]; !ok {
			w.res.OutcomesCap = true
		}
		return
	}
	w.outcomes[h] = struct{}{}
}

// Sample keeps a few actual cases per leg for the evidence file.
func (w *W) Sample(leg string, v interface{}) {
	n := w.sampleN[leg]
	w.sampleN[leg] = n + 1
	keep := n < 2
	if !keep && n < 1<<40 {
		// deterministic sparse picks, rotated by the seed
		m := int64(n) + w.Seed%7
		keep = m == 50 || m == 5000 || m == 500000
	}
	if keep && len(w.res.Samples) < 24 {
		w.res.Samples = append(w.res.Samples, map[string]interface{}{"leg": leg, "case": v})
	}
}

// Cap records that a bound was cut short (the run is then not exhaustive).
func (w *W) Cap(what string) { w.res.Capped = append(w.res.Capped, what) }

// Expired reports whether the deadline has passed; checks poll it at unit granularity.
func (w *W) Expired() bool {
	if w.expired {
		return true
	}
	w.tick++
	if w.tick&255 != 0 {
		return false
	}
	if time.Now().After(w.deadline) {
		w.expired = true
		w.Cap("deadline reached in worker " + strconv.Itoa(w.Shard))
	}
	return w.expired
}

func (w *W) recordFail(kind string, c interface{}, f *Fail) {
	w.res.FailCount++
	if w.failKeys[f.Key] >= maxFailsPerKey || len(w.res.Fails) >= maxFailsPerWorker {
		w.failKeys[f.Key]++
		return
	}
	w.failKeys[f.Key]++
	raw, err := json.Marshal(c)
	if err != nil {
		raw, _ = json.Marshal(fmt.Sprintf("%+v", c))
	}
	w.res.Fails = append(w.res.Fails, failRec{Kind: kind, Key: f.Key, Msg: f.Msg, Case: raw})
}

// FailRaw records a failure found outside a Kind (already re-judged by the caller).
func (w *W) FailRaw(kind string, c interface{}, f *Fail) { w.recordFail(kind, c, f) }

func (w *W) doAnnounce(kind string, c interface{}) {
	raw, _ := json.Marshal(c)
	b := []byte(kind + "\n" + string(raw) + "\n")
	w.announce.Truncate(0)
	w.announce.WriteAt(b, 0)
}

// ---------------------------------------------------------------------------

func verifDir() string {
	if d := os.Getenv("VERIF_DIR"); d != "" {
		return d
	}
	return "/verif"
}

// Main is the entry point of cmd/vcheck.
func Main() {
	args := os.Args[1:]
	if len(args) >= 1 && args[0] == "-worker" {
		workerMain(args[1:])
		return
	}
	if len(args) >= 2 && args[0] == "replay" {
		os.Exit(replayMain(args[1]))
	}
	if len(args) >= 1 && args[0] == "list" {
		ids := []string{}
		for id := range registry {
			ids = append(ids, id)
		}
		sort.Strings(ids)
		fmt.Println(strings.Join(ids, " "))
		return
	}
	if len(args) < 2 {
		fmt.Fprintln(os.Stderr, "usage: vcheck <id> <quick|thorough> | replay <file> | list")
		os.Exit(2)
	}
	os.Exit(parentMain(args[0], args[1]))
}

func seed() int64 {
	s, _ := strconv.ParseInt(os.Getenv("VERIF_SEED"), 10, 64)
	return s
}

func workerMain(args []string) {
	// -worker id tier shard n outfile
	id, tier := args[0], args[1]
	shard, _ := strconv.Atoi(args[2])
	n, _ := strconv.Atoi(args[3])
	out := args[4]
	c := registry[id]
	if c == nil {
		fmt.Fprintln(os.Stderr, "unknown check", id)
		os.Exit(2)
	}
	// hard limits so that runaway recursion / allocation in the code under test kills
	// this worker quickly instead of the machine
	debug.SetMaxStack(512 << 20)
	if lim := os.Getenv("VERIF_AS_LIMIT"); lim != "0" {
		gb := int64(12)
		if v, err := strconv.ParseInt(lim, 10, 64); err == nil && v > 0 {
			gb = v
		}
		syscall.Setrlimit(syscall.RLIMIT_AS, &syscall.Rlimit{Cur: uint64(gb) << 30, Max: uint64(gb) << 30})
	}
	w := &W{ID: id, Tier: tier, Shard: shard, N: n, Seed: seed(),
		outcomes: map[uint64]struct{}{}, sampleN: map[string]int{}, failKeys: map[string]int{}}
	w.res.Notes = map[string]int64{}
	w.res.Texts = map[string]string{}
	dl, _ := strconv.ParseInt(os.Getenv("VERIF_DEADLINE_UNIX"), 10, 64)
	if dl == 0 {
		dl = time.Now().Add(30 * time.Minute).Unix()
	}
	w.deadline = time.Unix(dl, 0)
	if a := os.Getenv("VERIF_ANNOUNCE"); a != "" {
		f, err := os.OpenFile(a, os.O_CREATE|os.O_RDWR|os.O_TRUNC, 0644)
		if err == nil {
			w.announce = f
		}
	}
	// watchdog: a single case that makes no progress for a long time is reported with its input
	hang := 240 * time.Second
	if v, err := strconv.Atoi(os.Getenv("VERIF_HANG_S")); err == nil && v > 0 {
		hang = time.Duration(v) * time.Second
	}
	go func() {
		last := int64(-1)
		since := time.Now()
		for {
			time.Sleep(2 * time.Second)
			p := atomic.LoadInt64(&w.progress)
			if p != last {
				last, since = p, time.Now()
				continue
			}
			if time.Since(since) > hang {
				cc, _ := w.cur.Load().(*curCase)
				if cc != nil {
					raw, _ := json.Marshal(cc.c)
					r := Result{Notes: map[string]int64{}, Evals: w.res.Evals}
					r.Fails = []failRec{{Kind: cc.kind, Key: "hang", Msg: fmt.Sprintf("no progress for %v on one case (non-termination suspected)", hang), Case: raw}}
					r.FailCount = 1
					b, _ := json.Marshal(&r)
					os.WriteFile(out, b, 0644)
					os.Exit(3)
				}
				since = time.Now()
			}
		}
	}()
	c.Run(w)
	w.res.Done = true
	w.res.Outcomes = make([]uint64, 0, len(w.outcomes))
	for h := range w.outcomes {
		w.res.Outcomes = append(w.res.Outcomes, h)
	}
	b, err := json.Marshal(&w.res)
	if err != nil {
		fmt.Fprintln(os.Stderr, "marshal result:", err)
		os.Exit(2)
	}
	if err := os.WriteFile(out, b, 0644); err != nil {
		fmt.Fprintln(os.Stderr, "write result:", err)
		os.Exit(2)
	}
}

// FailRawParent records a failure found by the parent itself (Check.Post).
func (r *Result) FailRawParent(kind string, c interface{}, f *Fail) {
	raw, _ := json.Marshal(c)
	r.Fails = append(r.Fails, failRec{Kind: kind, Key: f.Key, Msg: f.Msg, Case: raw})
	r.FailCount++
}

// Parent is the merged view handed to Check.Post.
type Parent struct {
	Res   *Result
	Tier  string
	Extra map[string]interface{}
}

type knownFinding struct {
	Property string `json:"property"`
	Key      string `json:"key"`
	Status   string `json:"status"`
	Commit   string `json:"commit,omitempty"`
	What     string `json:"what"`
}

func loadKnown() []knownFinding {
	b, err := os.ReadFile(filepath.Join(verifDir(), "known_findings.json"))
	if err != nil {
		return nil
	}
	var k struct {
		Findings []knownFinding `json:"findings"`
	}
	if err := json.Unmarshal(b, &k); err != nil {
		fmt.Fprintln(os.Stderr, "known_findings.json unreadable:", err)
		return nil
	}
	return k.Findings
}

func parentMain(id, tier string) int {
	start := time.Now()
	c := registry[id]
	if c == nil {
		fmt.Fprintln(os.Stderr, "unknown check", id)
		return 2
	}
	if tier != "quick" && tier != "thorough" {
		fmt.Fprintln(os.Stderr, "tier must be quick or thorough")
		return 2
	}
	n := runtime.NumCPU()
	if n > 16 {
		n = 16
	}
	if c.Workers > 0 {
		n = c.Workers
	}
	if v, err := strconv.Atoi(os.Getenv("VERIF_WORKERS")); err == nil && v > 0 {
		n = v
	}
	budget := 150 * time.Second
	if tier == "thorough" {
		budget = 60 * time.Minute
	}
	if v, err := strconv.Atoi(os.Getenv("VERIF_BUDGET_S")); err == nil && v > 0 {
		budget = time.Duration(v) * time.Second
	}
	deadline := time.Now().Add(budget)
	tmp, err := os.MkdirTemp("", "vcheck-"+id+"-")
	if err != nil {
		fmt.Fprintln(os.Stderr, err)
		return 2
	}
	defer os.RemoveAll(tmp)

	type wr struct {
		shard  int
		res    *Result
		err    error
		stderr string
	}
	results := make([]wr, n)
	done := make(chan int, n)
	runWorker := func(shard int, announce string) (*Result, error, string) {
		out := filepath.Join(tmp, fmt.Sprintf("w%d.json", shard))
		os.Remove(out)
		cmd := exec.Command(os.Args[0], "-worker", id, tier, strconv.Itoa(shard), strconv.Itoa(n), out)
		cmd.Env = append(os.Environ(), "VERIF_DEADLINE_UNIX="+strconv.FormatInt(deadline.Unix(), 10), "GOMAXPROCS=2", "GOTRACEBACK=single")
		if announce != "" {
			cmd.Env = append(cmd.Env, "VERIF_ANNOUNCE="+announce)
		}
		if c.Env != nil {
			cmd.Env = append(cmd.Env, c.Env(shard)...)
		}
		var eb tailBuf
		cmd.Stderr = &eb
		cmd.Stdout = os.Stderr
		runErr := cmd.Run()
		b, rerr := os.ReadFile(out)
		if rerr != nil {
			if runErr == nil {
				runErr = rerr
			}
			return nil, runErr, eb.String()
		}
		var r Result
		if jerr := json.Unmarshal(b, &r); jerr != nil {
			return nil, jerr, eb.String()
		}
		return &r, nil, eb.String()
	}
	for i := 0; i < n; i++ {
		go func(i int) {
			r, err, se := runWorker(i, "")
			results[i] = wr{i, r, err, se}
			done <- i
		}(i)
	}
	for i := 0; i < n; i++ {
		<-done
	}

	merged := &Result{Notes: map[string]int64{}, Texts: map[string]string{}}
	all := map[uint64]struct{}{}
	harnessErr := false
	for i := range results {
		r := results[i]
		if r.res == nil {
			// the worker died (fatal runtime error, out of memory, killed): find the case
			fmt.Fprintf(os.Stderr, "worker %d died: %v\n%s\n", r.shard, r.err, r.stderr)
			ann := filepath.Join(tmp, fmt.Sprintf("announce%d", r.shard))
			r2, err2, se2 := runWorker(r.shard, ann)
			if r2 != nil && r2.Done {
				// did not reproduce: harness-level flake, never a violation
				fmt.Fprintf(os.Stderr, "worker %d completed on re-run; treating first death as harness error\n", r.shard)
				harnessErr = true
				r.res = r2
			} else {
				b, _ := os.ReadFile(ann)
				parts := strings.SplitN(string(b), "\n", 3)
				fr := failRec{Kind: "crash", Key: "crash", Msg: fmt.Sprintf("worker process died while executing this case: %v\n%s", err2, tail(se2, 1500))}
				if len(parts) >= 2 && json.Valid([]byte(parts[1])) {
					fr.Kind = parts[0]
					fr.Case = json.RawMessage(parts[1])
				} else {
					fr.Case, _ = json.Marshal(map[string]interface{}{"shard": r.shard, "n": n, "tier": tier})
					harnessErr = true
				}
				merged.Fails = append(merged.Fails, fr)
				merged.FailCount++
				merged.Capped = append(merged.Capped, fmt.Sprintf("worker %d died", r.shard))
				continue
			}
		}
		x := r.res
		merged.Evals += x.Evals
		merged.States += x.States
		merged.Transitions += x.Transitions
		merged.Traces += x.Traces
		merged.FailCount += x.FailCount
		merged.Fails = append(merged.Fails, x.Fails...)
		merged.Capped = append(merged.Capped, x.Capped...)
		merged.Flaky = append(merged.Flaky, x.Flaky...)
		if !x.Done {
			merged.Capped = append(merged.Capped, fmt.Sprintf("worker %d stopped early", r.shard))
		}
		if x.OutcomesCap {
			merged.OutcomesCap = true
		}
		for _, h := range x.Outcomes {
			all[h] = struct{}{}
		}
		for k, v := range x.Notes {
			if strings.HasPrefix(k, "max:") {
				if cur, ok := merged.Notes[k]; !ok || v > cur {
					merged.Notes[k] = v
				}
			} else {
				merged.Notes[k] += v
			}
		}
		for k, v := range x.Texts {
			merged.Texts[k] = v
		}
		if len(merged.Samples) < 40 {
			merged.Samples = append(merged.Samples, x.Samples...)
		}
	}
	for _, fl := range merged.Flaky {
		merged.Capped = append(merged.Capped, "non-reproducible failure (history-dependent behaviour of the code under test, or harness nondeterminism): "+tail(fl, 300))
	}
	if harnessErr {
		merged.Capped = append(merged.Capped, "a worker died once and completed on re-run")
	}
	p := &Parent{Res: merged, Tier: tier, Extra: map[string]interface{}{}}
	if c.Post != nil {
		c.Post(p)
	}

	// classify failures
	known := loadKnown()
	violations := 0
	knownHits := map[string]int{}
	seenViol := map[string]bool{}
	var violLines []string
	for _, f := range merged.Fails {
		if strings.HasPrefix(f.Key, "harness/") {
			// a limitation or inconsistency of the harness itself (uncaptured nondeterminism, a
			// schedule that did not replay, a failed self-check): it says nothing about the
			// property, so it is never a violation; the run is reported as not exhaustive
			merged.Capped = append(merged.Capped, "harness note ["+f.Key+"]: "+tail(f.Msg, 300))
			fmt.Fprintf(os.Stderr, "HARNESS-NOTE %s [%s] %s\n    case: %s\n", id, f.Key, tail(f.Msg, 600), tail(string(f.Case), 300))
			continue
		}
		matched := false
		for _, k := range known {
			if k.Property == id && k.Status == "known" && k.Key == f.Key {
				knownHits[k.Key+"\x00"+k.What]++
				matched = true
				break
			}
		}
		if matched {
			continue
		}
		violations++
		dedup := f.Kind + "|" + f.Key
		if seenViol[dedup] && len(violLines) >= 5 {
			continue
		}
		seenViol[dedup] = true
		path := writeViolation(id, f)
		violLines = append(violLines, fmt.Sprintf("VIOLATION property=%s replay=%s", id, path))
		fmt.Fprintf(os.Stderr, "--- %s [%s] key=%s\n    case: %s\n    %s\n", id, f.Kind, f.Key, tail(string(f.Case), 600), tail(f.Msg, 1200))
	}
	for k, n := range knownHits {
		parts := strings.SplitN(k, "\x00", 2)
		fmt.Printf("KNOWN-FINDING: property=%s key=%s %s (matched %d recorded failures)\n", id, parts[0], parts[1], n)
	}
	exhaustive := len(merged.Capped) == 0
	distinct := int64(len(all))
	sort.Slice(merged.Samples, func(i, j int) bool { return false })
	samples := merged.Samples
	if len(samples) == 0 {
		samples = []interface{}{"(no sample recorded)"}
	}
	if len(samples) > 16 {
		rot := int(seed() % int64(len(samples)))
		if rot < 0 {
			rot = 0
		}
		samples = append(samples[rot:], samples[:rot]...)[:16]
	}
	cov := map[string]interface{}{
		"states":                        max64(merged.States, 1),
		"transitions":                   max64(merged.Transitions, 1),
		"traces_validated_against_impl": merged.Traces,
		"evaluations":                   merged.Evals,
		"distinct_nontrivial":           distinct,
		"rule":                          c.Rule,
		"samples":                       samples,
		"exhaustive":                    exhaustive,
		"trusted_base":                  c.TrustedBase,
		"workers":                       n,
		"failures_recorded":             merged.FailCount,
		"known_finding_matches":         len(knownHits),
	}
	if merged.OutcomesCap {
		cov["distinct_nontrivial_note"] = "outcome-class set hit its per-worker cap; the count is a lower bound"
	}
	if len(merged.Capped) > 0 {
		cov["caps_hit"] = uniq(merged.Capped)
	}
	notes := map[string]int64{}
	for k, v := range merged.Notes {
		notes[k] = v
	}
	if len(notes) > 0 {
		cov["counters"] = notes
	}
	if len(merged.Texts) > 0 {
		cov["facts"] = merged.Texts
	}
	for k, v := range p.Extra {
		cov[k] = v
	}
	assumptions := c.Assumptions
	if assumptions == nil {
		assumptions = []string{}
	}
	if c.TrustedBase == nil {
		cov["trusted_base"] = []string{}
	}
	ev := map[string]interface{}{
		"property_id": id,
		"tier":        tier,
		"seed":        seed(),
		"level":       "model_checking",
		"coverage":    cov,
		"assumptions": assumptions,
		"wall_s":      time.Since(start).Seconds(),
		"violations":  violations,
	}
	evb, _ := json.MarshalIndent(ev, "", " ")
	os.MkdirAll(filepath.Join(verifDir(), "evidence"), 0755)
	if err := os.WriteFile(filepath.Join(verifDir(), "evidence", id+".json"), evb, 0644); err != nil {
		fmt.Fprintln(os.Stderr, "cannot write evidence:", err)
		return 2
	}
	fmt.Printf("%s %s: evaluations=%d states=%d transitions=%d traces=%d distinct_outcomes=%d exhaustive=%v failures=%d known=%d wall=%.1fs\n",
		id, tier, merged.Evals, merged.States, merged.Transitions, merged.Traces, distinct, exhaustive, merged.FailCount, len(knownHits), time.Since(start).Seconds())
	for _, fl := range merged.Flaky {
		fmt.Fprintln(os.Stderr, "HARNESS-ERROR (non-reproducible failure, not reported as violation):", fl)
	}
	if violations > 0 {
		for _, l := range violLines {
			fmt.Println(l)
		}
		return 1
	}
	// non-reproducible failures and dead workers that completed on re-run are reported loudly and
	// make the evidence say exhaustive:false, but they are not verdicts about the property
	return 0
}

func uniq(a []string) []string {
	m := map[string]bool{}
	var r []string
	for _, s := range a {
		if !m[s] {
			m[s] = true
			r = append(r, s)
		}
	}
	return r
}

func max64(a, b int64) int64 {
	if a > b {
		return a
	}
	return b
}

func tail(s string, n int) string {
	if len(s) <= n {
		return s
	}
	return s[:n/2] + " ... " + s[len(s)-n/2:]
}

type tailBuf struct{ b []byte }

func (t *tailBuf) Write(p []byte) (int, error) {
	t.b = append(t.b, p...)
	if len(t.b) > 16384 {
		t.b = t.b[len(t.b)-8192:]
	}
	return len(p), nil
}
func (t *tailBuf) String() string { return string(t.b) }

type violFile struct {
	Property string          `json:"property"`
	Kind     string          `json:"kind"`
	Key      string          `json:"key"`
	Msg      string          `json:"msg"`
	Case     json.RawMessage `json:"case"`
}

func writeViolation(id string, f failRec) string {
	dir := filepath.Join(verifDir(), "violations", id)
	os.MkdirAll(dir, 0755)
	v := violFile{Property: id, Kind: f.Kind, Key: f.Key, Msg: f.Msg, Case: f.Case}
	b, _ := json.MarshalIndent(&v, "", " ")
	h := sha1.Sum(append([]byte(f.Kind+"|"+f.Key+"|"), f.Case...))
	path := filepath.Join(dir, hex.EncodeToString(h[:8])+".json")
	os.WriteFile(path, b, 0644)
	return path
}

func replayMain(path string) int {
	b, err := os.ReadFile(path)
	if err != nil {
		fmt.Fprintln(os.Stderr, err)
		return 2
	}
	var v violFile
	if err := json.Unmarshal(b, &v); err != nil {
		fmt.Fprintln(os.Stderr, err)
		return 2
	}
	c := registry[v.Property]
	if c == nil {
		fmt.Fprintln(os.Stderr, "unknown property", v.Property)
		return 2
	}
	r := c.replay[v.Kind]
	if r == nil {
		fmt.Fprintf(os.Stderr, "no replay function for kind %q (a crash without announced case is replayed by re-running the check)\n", v.Kind)
		return 2
	}
	if v.Key == "crash" || v.Key == "hang" {
		fmt.Fprintln(os.Stderr, "note: this case killed or wedged a worker; replaying it in-process may do the same to this process")
	}
	f := r(v.Case)
	if f == nil {
		fmt.Printf("replay: case passes now (property=%s kind=%s)\n", v.Property, v.Kind)
		return 0
	}
	fmt.Printf("replay: %s\n", f.Msg)
	fmt.Printf("VIOLATION property=%s replay=%s\n", v.Property, path)
	return 1
}
