package ref

import (
	"math"
	"math/big"
)

// High-precision real functions for C18, evaluated at the exact decimal argument.
// big.Float at 320 bits; exp by argument halving + Taylor + repeated squaring, ln by Newton
// iteration on that exp. SelfCheck validates them on every run.

const prec = 320

func bf(x float64) *big.Float { return new(big.Float).SetPrec(prec).SetFloat64(x) }

// Float converts an exact decimal to a 320-bit float.
func (d Dec) Float() *big.Float {
	return new(big.Float).SetPrec(prec).SetRat(d.Rat())
}

// ExpF computes e^x for |x| up to a few thousand.
func ExpF(x *big.Float) *big.Float {
	// halve until |x| < 2^-8
	n := 0
	y := new(big.Float).SetPrec(prec).Set(x)
	lim := bf(1.0 / 256)
	for new(big.Float).Abs(y).Cmp(lim) > 0 {
		y.Quo(y, bf(2))
		n++
	}
	// Taylor
	sum := bf(1)
	term := bf(1)
	for k := 1; k <= 60; k++ {
		term.Mul(term, y)
		term.Quo(term, bf(float64(k)))
		sum.Add(sum, term)
	}
	for i := 0; i < n; i++ {
		sum.Mul(sum, sum)
	}
	return sum
}

var ln10 *big.Float

// lnSmall computes ln(m) for m in [0.5, 20] by Newton on exp.
func lnSmall(m *big.Float) *big.Float {
	f, _ := m.Float64()
	y := bf(math.Log(f))
	for i := 0; i < 8; i++ {
		e := ExpF(y)
		// y += 2*(m-e)/(m+e)
		num := new(big.Float).SetPrec(prec).Sub(m, e)
		den := new(big.Float).SetPrec(prec).Add(m, e)
		num.Quo(num, den)
		num.Mul(num, bf(2))
		y.Add(y, num)
	}
	return y
}

// LnF computes ln(x) for x > 0 given as an exact decimal.
func LnF(d Dec) *big.Float {
	if ln10 == nil {
		ln10 = lnSmall(bf(10))
	}
	// x = m * 10^k with m in [1,10)
	k := d.adjExp()
	m := Dec{C: d.C, E: d.E - k}
	r := lnSmall(m.Float())
	r.Add(r, new(big.Float).SetPrec(prec).Mul(ln10, bf(float64(k))))
	return r
}

// Log10F computes log10(x).
func Log10F(d Dec) *big.Float {
	r := LnF(d)
	return r.Quo(r, ln10)
}

// SqrtF computes sqrt(x).
func SqrtF(d Dec) *big.Float {
	return new(big.Float).SetPrec(prec).Sqrt(d.Float())
}

// RelErr returns |got-want|/|want| as a float64 (want != 0).
func RelErr(got, want *big.Float) float64 {
	diff := new(big.Float).SetPrec(prec).Sub(got, want)
	diff.Abs(diff)
	if want.Sign() == 0 {
		f, _ := diff.Float64()
		return f
	}
	diff.Quo(diff, new(big.Float).Abs(want))
	f, _ := diff.Float64()
	return f
}

// SelfCheck validates the reference functions against known constants and identities.
func SelfCheck() string {
	e := ExpF(bf(1))
	want, _ := new(big.Float).SetPrec(prec).SetString("2.71828182845904523536028747135266249775724709369995957496696762772407663")
	if RelErr(e, want) > 1e-60 {
		return "exp(1) is wrong"
	}
	d10, _ := ParseDec("10")
	l := LnF(d10)
	want10, _ := new(big.Float).SetPrec(prec).SetString("2.30258509299404568401799145468436420760110148862877297603332790096757260967735")
	if RelErr(l, want10) > 1e-60 {
		return "ln(10) is wrong"
	}
	for _, s := range []string{"0.001", "0.5", "1.001", "3", "123456.789", "9.99e15", "1e-15"} {
		d, _ := ParseDec(s)
		if RelErr(ExpF(LnF(d)), d.Float()) > 1e-55 {
			return "exp(ln x) != x for " + s
		}
	}
	return ""
}
