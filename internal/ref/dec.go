package ref

import (
	"math/big"
	"strings"
)

// Dec is an exact decimal: (-1)^Neg * C * 10^E, or NaN / infinity.
type Dec struct {
	Neg bool
	C   *big.Int
	E   int
	NaN bool
	Inf bool
}

var ten = big.NewInt(10)

func pow10(n int) *big.Int {
	return new(big.Int).Exp(ten, big.NewInt(int64(n)), nil)
}

// ParseDec parses [+-]digits[.digits][(e|E)[+-]digits] (either digit group may be empty but
// not both), and NaN / Infinity spellings.
func ParseDec(s string) (Dec, bool) {
	orig := s
	neg := false
	if strings.HasPrefix(s, "-") {
		neg, s = true, s[1:]
	} else if strings.HasPrefix(s, "+") {
		s = s[1:]
	}
	switch strings.ToLower(s) {
	case "nan", "snan", "qnan":
		return Dec{NaN: true, Neg: neg}, true
	case "inf", "infinity":
		return Dec{Inf: true, Neg: neg}, true
	}
	mant := s
	exp := 0
	if i := strings.IndexAny(s, "eE"); i >= 0 {
		mant = s[:i]
		es := s[i+1:]
		eneg := false
		if strings.HasPrefix(es, "-") {
			eneg, es = true, es[1:]
		} else if strings.HasPrefix(es, "+") {
			es = es[1:]
		}
		if es == "" {
			return Dec{}, false
		}
		for len(es) > 1 && es[0] == '0' {
			es = es[1:]
		}
		if len(es) > 17 {
			return Dec{}, false
		}
		for _, c := range es {
			if c < '0' || c > '9' {
				return Dec{}, false
			}
			exp = exp*10 + int(c-'0')
		}
		if eneg {
			exp = -exp
		}
	}
	ip, fp := mant, ""
	if i := strings.IndexByte(mant, '.'); i >= 0 {
		ip, fp = mant[:i], mant[i+1:]
	}
	if ip == "" && fp == "" {
		return Dec{}, false
	}
	for _, c := range ip + fp {
		if c < '0' || c > '9' {
			return Dec{}, false
		}
	}
	c, ok := new(big.Int).SetString(ip+fp, 10)
	if !ok {
		_ = orig
		return Dec{}, false
	}
	return Dec{Neg: neg, C: c, E: exp - len(fp)}, true
}

func (d Dec) Finite() bool { return !d.NaN && !d.Inf }
func (d Dec) IsZero() bool { return d.Finite() && d.C.Sign() == 0 }

// signed coefficient
func (d Dec) sc() *big.Int {
	if d.Neg {
		return new(big.Int).Neg(d.C)
	}
	return new(big.Int).Set(d.C)
}

func fromSigned(c *big.Int, e int) Dec {
	if c.Sign() < 0 {
		return Dec{Neg: true, C: new(big.Int).Neg(c), E: e}
	}
	return Dec{C: new(big.Int).Set(c), E: e}
}

// align returns signed coefficients at the common (smaller) exponent.
func align(a, b Dec) (*big.Int, *big.Int, int) {
	ca, cb := a.sc(), b.sc()
	e := a.E
	if b.E < e {
		e = b.E
	}
	if a.E > e {
		ca.Mul(ca, pow10(a.E-e))
	}
	if b.E > e {
		cb.Mul(cb, pow10(b.E-e))
	}
	return ca, cb, e
}

// Cmp compares finite values numerically.
func (d Dec) Cmp(o Dec) int {
	if d.C.Sign() == 0 && o.C.Sign() == 0 {
		return 0
	}
	// avoid huge alignments: compare by sign and magnitude first
	sd, so := d.sign(), o.sign()
	if sd != so {
		if sd < so {
			return -1
		}
		return 1
	}
	ad, ao := d.adjExp(), o.adjExp()
	if sd != 0 && ad != ao {
		r := 1
		if ad < ao {
			r = -1
		}
		return r * sd
	}
	ca, cb, _ := align(d, o)
	return ca.Cmp(cb)
}

func (d Dec) sign() int {
	if d.C.Sign() == 0 {
		return 0
	}
	if d.Neg {
		return -1
	}
	return 1
}

func ndigits(c *big.Int) int {
	if c.Sign() == 0 {
		return 1
	}
	return len(c.Text(10))
}

// adjExp is the exponent of the most significant digit.
func (d Dec) adjExp() int { return d.E + ndigits(d.C) - 1 }

// Digits is the number of significant digits of the coefficient without trailing zeros.
func (d Dec) Digits() int {
	if d.C.Sign() == 0 {
		return 1
	}
	s := strings.TrimRight(d.C.Text(10), "0")
	return len(s)
}

// RoundHE rounds to at most p significant digits, half-even.
func (d Dec) RoundHE(p int) Dec {
	if !d.Finite() {
		return d
	}
	n := ndigits(d.C)
	if n <= p {
		return d
	}
	drop := n - p
	div := pow10(drop)
	q, r := new(big.Int).QuoRem(d.C, div, new(big.Int))
	half := new(big.Int).Quo(div, big.NewInt(2))
	c := r.Cmp(half)
	if c > 0 || c == 0 && q.Bit(0) == 1 {
		q.Add(q, big.NewInt(1))
	}
	return Dec{Neg: d.Neg, C: q, E: d.E + drop}
}

func Add(a, b Dec) Dec {
	ca, cb, e := align(a, b)
	return fromSigned(ca.Add(ca, cb), e)
}

func Sub(a, b Dec) Dec {
	ca, cb, e := align(a, b)
	return fromSigned(ca.Sub(ca, cb), e)
}

func Mul(a, b Dec) Dec {
	c := new(big.Int).Mul(a.C, b.C)
	return Dec{Neg: a.Neg != b.Neg && c.Sign() != 0, C: c, E: a.E + b.E}
}

// Quo returns a/b rounded half-even to p significant digits (b != 0).
func Quo(a, b Dec, p int) Dec {
	if a.C.Sign() == 0 {
		return Dec{C: big.NewInt(0)}
	}
	// scale numerator so the integer quotient has at least p+2 digits
	shift := p + 3 + ndigits(b.C) - ndigits(a.C)
	if shift < 0 {
		shift = 0
	}
	num := new(big.Int).Mul(a.C, pow10(shift))
	q, r := new(big.Int).QuoRem(num, b.C, new(big.Int))
	// sticky: make the quotient carry whether a remainder exists so that half-even sees it
	q.Mul(q, big.NewInt(10))
	if r.Sign() != 0 {
		q.Add(q, big.NewInt(1))
	}
	res := Dec{Neg: a.Neg != b.Neg, C: q, E: a.E - b.E - shift - 1}
	return res.RoundHE(p)
}

// Rem is the remainder of truncated division, with the sign of the dividend (b != 0).
func Rem(a, b Dec) Dec {
	ca, cb, e := align(a, b)
	cb.Abs(cb)
	neg := ca.Sign() < 0
	ca.Abs(ca)
	r := new(big.Int).Rem(ca, cb)
	if neg {
		r.Neg(r)
	}
	d := fromSigned(r, e)
	if r.Sign() == 0 {
		d.Neg = neg
	}
	return d
}

// Equal is numeric equality of finite values.
// RemFar is Rem for operands whose exponents may be astronomically far apart: the remainder of
// truncated division, sign of the dividend, computed with modular arithmetic on the coefficients
// (no alignment: 10^k mod m by repeated squaring).
func RemFar(a, b Dec) Dec {
	absLess := func() bool {
		x, y := a, b
		x.Neg, y.Neg = false, false
		return x.Cmp(y) < 0
	}
	if a.C.Sign() == 0 {
		return Dec{C: big.NewInt(0), E: a.E}
	}
	if absLess() {
		return a
	}
	var r *big.Int
	e := b.E
	if a.E >= b.E {
		m := b.C
		p := new(big.Int).Exp(big.NewInt(10), big.NewInt(int64(a.E-b.E)), m)
		r = new(big.Int).Mod(a.C, m)
		r.Mul(r, p)
		r.Mod(r, m)
	} else {
		// |a| >= |b| and a.E < b.E: b's coefficient scaled to a's exponent is no longer than a's
		m := new(big.Int).Mul(b.C, pow10(b.E-a.E))
		r = new(big.Int).Mod(a.C, m)
		e = a.E
	}
	return Dec{Neg: a.Neg && r.Sign() != 0, C: r, E: e}
}

func (d Dec) Equal(o Dec) bool {
	if !d.Finite() || !o.Finite() {
		return d.NaN == o.NaN && d.Inf == o.Inf && (d.NaN || d.Neg == o.Neg)
	}
	return d.Cmp(o) == 0
}

// String prints sign, coefficient and exponent exactly.
func (d Dec) String() string {
	if d.NaN {
		return "NaN"
	}
	s := ""
	if d.Neg {
		s = "-"
	}
	if d.Inf {
		return s + "Infinity"
	}
	return s + d.C.Text(10) + "e" + itoa(d.E)
}

// Plain prints the value in plain positional notation (no exponent).
func (d Dec) Plain() string {
	s := ""
	if d.Neg {
		s = "-"
	}
	digits := d.C.Text(10)
	if d.E >= 0 {
		if d.C.Sign() == 0 {
			return s + "0"
		}
		return s + digits + strings.Repeat("0", d.E)
	}
	k := -d.E
	if len(digits) <= k {
		digits = strings.Repeat("0", k-len(digits)+1) + digits
	}
	return s + digits[:len(digits)-k] + "." + digits[len(digits)-k:]
}

func itoa(n int) string {
	return big.NewInt(int64(n)).Text(10)
}

// Rat returns the exact rational value.
func (d Dec) Rat() *big.Rat {
	r := new(big.Rat).SetInt(d.sc())
	if d.E > 0 {
		r.Mul(r, new(big.Rat).SetInt(pow10(d.E)))
	} else if d.E < 0 {
		r.Quo(r, new(big.Rat).SetInt(pow10(-d.E)))
	}
	return r
}

// FromInt64 makes an exact integer.
func FromInt64(v int64) Dec {
	return fromSigned(big.NewInt(v), 0)
}
