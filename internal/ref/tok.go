// Package ref holds the reference models. They are written from the property
// statements, share no code with the implementation and do not use its decimal library.
package ref

import (
	"unicode/utf8"
)

type TK int

const (
	TEOF TK = iota
	TNum
	TStr
	TIdent
	TKw
	TOp
	TBad
)

func (k TK) String() string {
	return [...]string{"eof", "num", "str", "ident", "kw", "op", "bad"}[k]
}

// Tok is one reference token.
type Tok struct {
	K     TK
	Text  string // operator / keyword / identifier text
	Val   string // decoded string value, or the literal with separators removed
	Start int    // start of leading trivia
	Pos   int    // start of token text
	End   int    // end of token text
	LB    bool   // a line break lies in the leading trivia
	Err   bool   // lexical error inside this token
	ValU  bool   // value not fixed by the statement (unlisted escape, line continuation)
	Unsp  bool   // accept/reject not fixed by the statement (short \x / \u escape, identifier escape)
}

// Operators, longest first.
var Operators = []string{
	"===", "!==", "...",
	"==", "!=", "!.", "!!", "&&", "||", "??", "<=", ">=",
	"(", ")", "[", "]", ".", ",", "<", ">", "+", "-", "*", "/", "%", "&", "|", "^", "!", "~", "?", ":", "=",
}

var Keywords = map[string]bool{"true": true, "false": true, "null": true, "this": true, "ctx": true, "typeof": true}

func IsWS(r rune) bool {
	switch r {
	case 0x09, 0x0B, 0x0C, 0x20, 0xA0, 0x1680, 0x202F, 0x205F, 0x3000, 0xFEFF:
		return true
	}
	return r >= 0x2000 && r <= 0x200B
}

func IsLB(r rune) bool {
	switch r {
	case 0x0A, 0x0D, 0x85, 0x2028, 0x2029:
		return true
	}
	return false
}

func inTable(r rune, t []rune) bool {
	for i := 0; i+1 < len(t); i += 2 {
		if r >= t[i] && r <= t[i+1] {
			return true
		}
	}
	return false
}

// fast membership for the scanner differential: bitmap built once from the pinned tables by
// linear expansion (independent of any binary search)
var startBits, partBits [65536 / 64]uint64

func init() {
	for i := 0; i+1 < len(ES5Start); i += 2 {
		for r := ES5Start[i]; r <= ES5Start[i+1]; r++ {
			startBits[r/64] |= 1 << (uint(r) % 64)
		}
	}
	for i := 0; i+1 < len(ES5Part); i += 2 {
		for r := ES5Part[i]; r <= ES5Part[i+1]; r++ {
			partBits[r/64] |= 1 << (uint(r) % 64)
		}
	}
}

func IsIdStart(r rune) bool {
	if r < 0x80 {
		return r >= 'A' && r <= 'Z' || r >= 'a' && r <= 'z' || r == '$' || r == '_'
	}
	if r > 0xFFFF {
		return false
	}
	return startBits[r/64]&(1<<(uint(r)%64)) != 0
}

func IsIdPart(r rune) bool {
	if r < 0x80 {
		return r >= 'A' && r <= 'Z' || r >= 'a' && r <= 'z' || r >= '0' && r <= '9' || r == '$' || r == '_'
	}
	if r > 0xFFFF {
		return false
	}
	return partBits[r/64]&(1<<(uint(r)%64)) != 0
}

// IsIdStartLinear / IsIdPartLinear search the pinned tables pair by pair.
func IsIdStartLinear(r rune) bool {
	if r < 0x80 {
		return IsIdStart(r)
	}
	return inTable(r, ES5Start)
}
func IsIdPartLinear(r rune) bool {
	if r < 0x80 {
		return IsIdPart(r)
	}
	return inTable(r, ES5Part)
}

func isDigit(r rune) bool { return r >= '0' && r <= '9' }
func isHex(r rune) bool {
	return r >= '0' && r <= '9' || r >= 'a' && r <= 'f' || r >= 'A' && r <= 'F'
}

// Lex tokenizes text. The returned slice always ends with a TEOF token.
func Lex(text []byte) []Tok {
	var toks []Tok
	pos := 0
	n := len(text)
	for {
		start := pos
		lb := false
		for pos < n {
			r, sz := utf8.DecodeRune(text[pos:])
			if IsLB(r) {
				lb = true
				pos += sz
			} else if IsWS(r) {
				pos += sz
			} else {
				break
			}
		}
		t := Tok{Start: start, Pos: pos, LB: lb}
		if pos >= n {
			t.K, t.End = TEOF, pos
			toks = append(toks, t)
			return toks
		}
		r, sz := utf8.DecodeRune(text[pos:])
		switch {
		case isDigit(r) || r == '.' && pos+1 < n && isDigit(rune(text[pos+1])):
			lexNumber(text, &t)
		case r == '\'' || r == '"':
			lexString(text, &t)
		case IsIdStart(r):
			p := pos + sz
			for p < n {
				r2, s2 := utf8.DecodeRune(text[p:])
				if !IsIdPart(r2) {
					break
				}
				p += s2
			}
			t.End = p
			t.Text = string(text[pos:p])
			if Keywords[t.Text] {
				t.K = TKw
			} else {
				t.K = TIdent
			}
			if p < n && text[p] == '\\' {
				// identifier escapes are outside the statement
				t.Unsp = true
			}
		default:
			matched := false
			for _, op := range Operators {
				if pos+len(op) <= n && string(text[pos:pos+len(op)]) == op {
					t.K, t.Text, t.End = TOp, op, pos+len(op)
					matched = true
					break
				}
			}
			if !matched {
				t.K, t.End, t.Err = TBad, pos+sz, true
			}
		}
		toks = append(toks, t)
		pos = t.End
	}
}

// fragment scans digits with single underscores between digits; returns cleaned digits.
func fragment(text []byte, p int, bad *bool) (string, int) {
	var out []byte
	prevDigit := false
	prevUnd := false
	for p < len(text) {
		c := text[p]
		if c == '_' {
			if !prevDigit {
				*bad = true // leading or doubled separator
			}
			prevUnd, prevDigit = true, false
			p++
			continue
		}
		if c >= '0' && c <= '9' {
			out = append(out, c)
			prevDigit, prevUnd = true, false
			p++
			continue
		}
		break
	}
	if prevUnd {
		*bad = true // trailing separator
	}
	return string(out), p
}

func lexNumber(text []byte, t *Tok) {
	p := t.Pos
	bad := false
	mainF, p2 := fragment(text, p, &bad)
	p = p2
	frac := ""
	hasDot := false
	if p < len(text) && text[p] == '.' {
		hasDot = true
		p++
		frac, p = fragment(text, p, &bad)
	}
	exp := ""
	if p < len(text) && (text[p] == 'e' || text[p] == 'E') {
		q := p + 1
		sign := ""
		if q < len(text) && (text[q] == '+' || text[q] == '-') {
			sign = string(text[q])
			q++
		}
		var ef string
		ef, q = fragment(text, q, &bad)
		if ef == "" {
			bad = true // exponent without digits
		}
		exp = "e" + sign + ef
		p = q
	}
	if mainF == "" && frac == "" {
		bad = true
	}
	t.K = TNum
	t.End = p
	v := mainF
	if hasDot {
		v += "." + frac
	}
	t.Val = v + exp
	// an identifier character directly after the literal is an error
	if p < len(text) {
		r, _ := utf8.DecodeRune(text[p:])
		if IsIdStart(r) {
			bad = true
		}
	}
	t.Err = bad
}

func lexString(text []byte, t *Tok) {
	quote := text[t.Pos]
	p := t.Pos + 1
	var val []byte
	t.K = TStr
	for {
		if p >= len(text) {
			t.Err = true
			break
		}
		r, sz := utf8.DecodeRune(text[p:])
		if r == rune(quote) && sz == 1 {
			p++
			break
		}
		if IsLB(r) {
			t.Err = true
			break
		}
		if r == '\\' {
			p++
			if p >= len(text) {
				t.Err = true
				break
			}
			e, es := utf8.DecodeRune(text[p:])
			p += es
			switch e {
			case '0':
				val = append(val, 0)
			case 'b':
				val = append(val, '\b')
			case 't':
				val = append(val, '\t')
			case 'n':
				val = append(val, '\n')
			case 'v':
				val = append(val, '\v')
			case 'f':
				val = append(val, '\f')
			case 'r':
				val = append(val, '\r')
			case '\'':
				val = append(val, '\'')
			case '"':
				val = append(val, '"')
			case '\\':
				val = append(val, '\\')
			case 'x', 'u':
				need := 2
				if e == 'u' {
					need = 4
				}
				cp := rune(0)
				got := 0
				for got < need && p < len(text) && isHex(rune(text[p])) {
					c := text[p]
					var d rune
					switch {
					case c >= '0' && c <= '9':
						d = rune(c - '0')
					case c >= 'a' && c <= 'f':
						d = rune(c-'a') + 10
					default:
						d = rune(c-'A') + 10
					}
					cp = cp*16 + d
					got++
					p++
				}
				if got < need {
					// the statement only defines \xHH and \uHHHH
					t.Unsp = true
					t.ValU = true
				} else {
					if cp >= 0xD800 && cp <= 0xDFFF {
						t.ValU = true // a lone surrogate has no UTF-8 text
					}
					var buf [4]byte
					k := utf8.EncodeRune(buf[:], cp)
					val = append(val, buf[:k]...)
				}
			case '\r':
				if p < len(text) && text[p] == '\n' {
					p++
				}
				// a backslash followed by a raw line break (line continuation) is outside the
				// statement: neither verdict nor extent is fixed
				t.ValU = true
				t.Unsp = true
			default:
				// unlisted escape: extent follows, value unspecified
				t.ValU = true
				if IsLB(e) {
					t.Unsp = true
				}
			}
			continue
		}
		val = append(val, text[p:p+sz]...)
		p += sz
	}
	t.End = p
	t.Val = string(val)
}

// FirstErr returns the index of the first token with a lexical error or unspecified
// verdict, or -1.
func FirstErr(toks []Tok) (idx int, unspecified bool) {
	for i, t := range toks {
		if t.Unsp {
			return i, true
		}
		if t.Err {
			return i, false
		}
	}
	return -1, false
}
