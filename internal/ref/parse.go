package ref

import (
	"strings"
)

// N is a node of the canonical tree used to compare reference and implementation.
type N struct {
	K      string // id num str lit prefix typeof bin cond sel call arr paren
	Op     string // operator text, literal keyword, selector name
	Val    string // identifier name, literal value (cleaned number text / decoded string)
	ValU   bool   // value unspecified by the statement
	Assert bool   // sel: !.
	Spread bool   // call: trailing ...
	Kids   []*N
	Pos    int // start of leading trivia of the first token
	End    int // end of the last token
}

func (n *N) write(b *strings.Builder) {
	b.WriteByte('(')
	b.WriteString(n.K)
	if n.Op != "" {
		b.WriteByte(' ')
		b.WriteString(n.Op)
	}
	if n.K == "id" || n.K == "num" || n.K == "str" {
		b.WriteByte(' ')
		if n.K == "str" {
			b.WriteString(quote(n.Val))
		} else {
			b.WriteString(n.Val)
		}
	}
	if n.Assert {
		b.WriteString(" !")
	}
	if n.Spread {
		b.WriteString(" ...")
	}
	for _, k := range n.Kids {
		b.WriteByte(' ')
		if k == nil {
			b.WriteString("<nil>")
		} else {
			k.write(b)
		}
	}
	b.WriteByte(')')
}

func quote(s string) string {
	var b strings.Builder
	b.WriteByte('"')
	for i := 0; i < len(s); i++ {
		c := s[i]
		if c < 0x20 || c >= 0x7f || c == '"' || c == '\\' {
			const hx = "0123456789abcdef"
			b.WriteString("\\x")
			b.WriteByte(hx[c>>4])
			b.WriteByte(hx[c&15])
		} else {
			b.WriteByte(c)
		}
	}
	b.WriteByte('"')
	return b.String()
}

// String is the canonical S-expression.
func (n *N) String() string {
	if n == nil {
		return "<nil>"
	}
	var b strings.Builder
	n.write(&b)
	return b.String()
}

// Verdict of the reference parser.
type Verdict int

const (
	Accept Verdict = iota
	Reject
	Unspecified
)

func (v Verdict) String() string { return [...]string{"accept", "reject", "unspecified"}[v] }

var binPrec = map[string]int{
	"||": 1, "??": 1,
	"&&": 2,
	"|":  3,
	"^":  4,
	"&":  5,
	"==": 6, "!=": 6, "===": 6, "!==": 6,
	"<": 7, ">": 7, "<=": 7, ">=": 7,
	"+": 9, "-": 9,
	"*": 10, "/": 10, "%": 10,
}

// BinaryOps lists the binary operators of the ladder.
var BinaryOps = []string{"||", "??", "&&", "|", "^", "&", "==", "!=", "===", "!==", "<", ">", "<=", ">=", "+", "-", "*", "/", "%"}

var prefixOps = map[string]bool{"+": true, "-": true, "!": true, "!!": true, "~": true}

type parser struct {
	toks []Tok
	i    int
	fail bool
}

func (p *parser) cur() *Tok { return &p.toks[p.i] }
func (p *parser) isOp(s string) bool {
	t := p.cur()
	return t.K == TOp && t.Text == s
}
func (p *parser) prevEnd() int {
	if p.i == 0 {
		return 0
	}
	return p.toks[p.i-1].End
}

// Parse derives the tree of text under the grammar of the statement.
func Parse(text []byte) (*N, Verdict) {
	toks := Lex(text)
	return ParseToks(toks)
}

func ParseToks(toks []Tok) (*N, Verdict) {
	if idx, unsp := FirstErr(toks); idx >= 0 {
		if unsp {
			return nil, Unspecified
		}
		return nil, Reject
	}
	p := &parser{toks: toks}
	n := p.expr()
	if p.fail || p.cur().K != TEOF {
		return nil, Reject
	}
	return n, Accept
}

func (p *parser) expr() *N {
	left := p.assign()
	for !p.fail && p.isOp(",") {
		p.i++
		right := p.assign()
		left = &N{K: "bin", Op: ",", Kids: []*N{left, right}, Pos: left.Pos, End: p.prevEnd()}
	}
	return left
}

func (p *parser) assign() *N {
	left := p.binary(0)
	if p.fail {
		return left
	}
	if p.isOp("=") {
		p.i++
		right := p.assign()
		return &N{K: "bin", Op: "=", Kids: []*N{left, right}, Pos: left.Pos, End: p.prevEnd()}
	}
	if p.isOp("?") {
		p.i++
		a := p.assign()
		if p.fail {
			return left
		}
		if !p.isOp(":") {
			p.fail = true
			return left
		}
		p.i++
		b := p.assign()
		return &N{K: "cond", Kids: []*N{left, a, b}, Pos: left.Pos, End: p.prevEnd()}
	}
	return left
}

func (p *parser) binary(prec int) *N {
	left := p.unary()
	for !p.fail {
		t := p.cur()
		if t.K != TOp {
			break
		}
		np, ok := binPrec[t.Text]
		if !ok || np <= prec {
			break
		}
		p.i++
		right := p.binary(np)
		left = &N{K: "bin", Op: t.Text, Kids: []*N{left, right}, Pos: left.Pos, End: p.prevEnd()}
	}
	return left
}

func (p *parser) unary() *N {
	t := p.cur()
	if t.K == TOp && prefixOps[t.Text] {
		p.i++
		o := p.unary()
		return &N{K: "prefix", Op: t.Text, Kids: []*N{o}, Pos: t.Start, End: p.prevEnd()}
	}
	if t.K == TKw && t.Text == "typeof" {
		p.i++
		o := p.unary()
		return &N{K: "typeof", Kids: []*N{o}, Pos: t.Start, End: p.prevEnd()}
	}
	return p.postfix()
}

func (p *parser) postfix() *N {
	e := p.primary()
	for !p.fail {
		t := p.cur()
		if t.LB || t.K != TOp {
			break
		}
		if t.Text == "." || t.Text == "!." {
			p.i++
			nm := p.cur()
			if nm.K != TIdent && nm.K != TKw {
				p.fail = true
				break
			}
			p.i++
			e = &N{K: "sel", Op: nm.Text, Assert: t.Text == "!.", Kids: []*N{e}, Pos: e.Pos, End: p.prevEnd()}
			continue
		}
		if t.Text == "(" {
			p.i++
			kids := []*N{e}
			spread := false
			kids, spread = p.list(kids, ")", true)
			if p.fail {
				break
			}
			e = &N{K: "call", Spread: spread, Kids: kids, Pos: e.Pos, End: p.prevEnd()}
			continue
		}
		break
	}
	return e
}

// list parses [Assign {, Assign}] [...] close.
func (p *parser) list(kids []*N, close string, allowSpread bool) ([]*N, bool) {
	spread := false
	if !p.isOp(close) && !(allowSpread && p.isOp("...")) {
		for {
			kids = append(kids, p.assign())
			if p.fail {
				return kids, false
			}
			if p.isOp(",") {
				p.i++
				continue
			}
			break
		}
	}
	if allowSpread && p.isOp("...") {
		spread = true
		p.i++
	}
	if !p.isOp(close) {
		p.fail = true
		return kids, false
	}
	p.i++
	return kids, spread
}

func (p *parser) primary() *N {
	t := p.cur()
	switch t.K {
	case TNum:
		p.i++
		return &N{K: "num", Val: t.Val, Pos: t.Start, End: t.End}
	case TStr:
		p.i++
		return &N{K: "str", Val: t.Val, ValU: t.ValU, Pos: t.Start, End: t.End}
	case TIdent:
		p.i++
		return &N{K: "id", Val: t.Text, Pos: t.Start, End: t.End}
	case TKw:
		if t.Text != "typeof" {
			p.i++
			return &N{K: "lit", Op: t.Text, Pos: t.Start, End: t.End}
		}
	case TOp:
		if t.Text == "(" {
			p.i++
			in := p.expr()
			if p.fail {
				return in
			}
			if !p.isOp(")") {
				p.fail = true
				return in
			}
			p.i++
			return &N{K: "paren", Kids: []*N{in}, Pos: t.Start, End: p.prevEnd()}
		}
		if t.Text == "[" {
			p.i++
			kids, _ := p.list(nil, "]", false)
			return &N{K: "arr", Kids: kids, Pos: t.Start, End: p.prevEnd()}
		}
	}
	p.fail = true
	return &N{K: "bad"}
}

// Walk visits n and all descendants.
func Walk(n *N, f func(*N)) {
	if n == nil {
		return
	}
	f(n)
	for _, k := range n.Kids {
		Walk(k, f)
	}
}
