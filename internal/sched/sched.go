// Package sched is a cooperative scheduler plus a preemption-bounded depth-first explorer
// of schedules. Exactly one registered thread runs at a time; a thread gives up control only
// inside Point (called from the yield hook injected into the package under test) or when
// its body returns. The decision logic runs in the goroutine of the thread that reached the
// point, so continuing the same thread costs no goroutine switch.
package sched

import (
	"fmt"
	"runtime"
	"sync/atomic"
	"time"
)

// PointInfo describes one recorded decision (only points with more than one enabled thread
// are recorded).
type PointInfo struct {
	Enabled        int  // number of enabled threads at this point
	RunningEnabled bool // the thread that reached the point can continue (false: it finished)
}

// Exec is one controlled execution.
type Exec struct {
	n           int
	done        []bool
	wake        []chan struct{}
	cur         int
	prefix      []int
	Choices     []int
	Points      []PointInfo
	Obs         []string
	fin         chan struct{}
	Diverged    string
	Stalled     bool
	Deadlocked  bool
	blockStreak int
	progress    int64
	abandoned   bool
}

// BlockedForever is the panic value of Block when a thread outside any controlled execution has
// waited for a shimmed lock through two million consecutive attempts.
const BlockedForever = "sched: blocked forever on a lock that nobody holds any more (left locked by an earlier call)"

var idleBlocks int64

// active is the execution whose threads may call Point; nil outside executions.
var active *Exec

// Point is the yield hook: called by the running thread at every scheduling point.
func Point(loc string) {
	e := active
	if e == nil || e.abandoned {
		atomic.StoreInt64(&idleBlocks, 0)
		return
	}
	atomic.AddInt64(&e.progress, 1)
	e.blockStreak = 0
	e.decide(true)
}

// Block is the block hook: the running thread cannot proceed (a shimmed lock is held by
// another thread). Another thread must run; when control comes back the caller re-checks its
// condition. If nobody else can run, or everybody keeps blocking, the execution is a deadlock.
func Block() {
	e := active
	if e == nil || e.abandoned {
		// outside a controlled execution nobody else will ever release the lock the caller waits for
		// (free-running helper goroutines aside): after a long streak of fruitless waiting this is a
		// lock left behind by an earlier call, and the caller is told so instead of spinning forever
		if atomic.AddInt64(&idleBlocks, 1) > 2000000 {
			atomic.StoreInt64(&idleBlocks, 0)
			panic(BlockedForever)
		}
		runtime.Gosched()
		return
	}
	e.blockStreak++
	others := 0
	for t := 0; t < e.n; t++ {
		if !e.done[t] && t != e.cur {
			others++
		}
	}
	if others == 0 || e.blockStreak > 4*e.n+4 {
		e.Deadlocked = true
		e.abandoned = true
		close(e.fin)
		select {} // park forever: this execution is over
	}
	// hand over to the next thread in canonical order; not a preemption (we cannot continue)
	c := 0
	if others > 1 {
		if len(e.Choices) < len(e.prefix) {
			c = e.prefix[len(e.Choices)]
			if c >= others {
				e.Diverged = fmt.Sprintf("replayed choice %d at a blocking point with %d other threads", c, others)
				c = 0
			}
		}
		e.Choices = append(e.Choices, c)
		e.Points = append(e.Points, PointInfo{Enabled: others, RunningEnabled: false})
	}
	t := -1
	for k := 0; k < e.n; k++ {
		if !e.done[k] && k != e.cur {
			if c == 0 {
				t = k
				break
			}
			c--
		}
	}
	self := e.cur
	e.cur = t
	e.wake[t] <- struct{}{}
	<-e.wake[self]
}

func (e *Exec) enabledFrom(running bool) []int {
	var en []int
	if running {
		en = append(en, e.cur)
	}
	for t := 0; t < e.n; t++ {
		if !e.done[t] && !(running && t == e.cur) {
			en = append(en, t)
		}
	}
	return en
}

// decide picks the next thread; runs in the goroutine of thread e.cur. No allocation on the
// common path.
func (e *Exec) decide(running bool) {
	others := 0
	for t := 0; t < e.n; t++ {
		if !e.done[t] && t != e.cur {
			others++
		}
	}
	n := others
	if running {
		n++
	}
	if n == 0 {
		close(e.fin)
		return
	}
	c := 0
	if n > 1 {
		if len(e.Choices) < len(e.prefix) {
			c = e.prefix[len(e.Choices)]
			if c >= n {
				e.Diverged = fmt.Sprintf("replayed choice %d at point %d but only %d threads are enabled", c, len(e.Choices), n)
				c = 0
			}
		}
		e.Choices = append(e.Choices, c)
		e.Points = append(e.Points, PointInfo{Enabled: n, RunningEnabled: running})
	}
	// canonical order: the running thread first (if it can continue), then ascending ids
	if running {
		if c == 0 {
			return
		}
		c--
	}
	t := -1
	for k := 0; k < e.n; k++ {
		if !e.done[k] && k != e.cur {
			if c == 0 {
				t = k
				break
			}
			c--
		}
	}
	self := e.cur
	e.cur = t
	e.wake[t] <- struct{}{}
	if running {
		<-e.wake[self]
	}
}

// Run executes bodies under the schedule given by prefix (then default choices).
// It returns false if the execution stalled (a thread blocked outside the scheduler).
func Run(bodies []func() string, prefix []int, stall time.Duration) *Exec {
	n := len(bodies)
	e := &Exec{n: n, done: make([]bool, n), wake: make([]chan struct{}, n), prefix: prefix, Obs: make([]string, n), fin: make(chan struct{}), cur: -1}
	for i := range e.wake {
		e.wake[i] = make(chan struct{}, 1)
	}
	for i := range bodies {
		i := i
		go func() {
			<-e.wake[i]
			if e.abandoned {
				return
			}
			func() {
				defer func() {
					if r := recover(); r != nil {
						e.Obs[i] = fmt.Sprintf("panic: %v", r)
					}
				}()
				e.Obs[i] = bodies[i]()
			}()
			if e.abandoned {
				return
			}
			e.done[i] = true
			atomic.AddInt64(&e.progress, 1)
			e.decide(false)
		}()
	}
	active = e
	// initial decision: no thread is running yet
	en := e.enabledFrom(false)
	c := 0
	if len(en) > 1 {
		if len(prefix) > 0 {
			c = prefix[0]
			if c >= len(en) {
				e.Diverged = "initial choice out of range"
				c = 0
			}
		}
		e.Choices = append(e.Choices, c)
		e.Points = append(e.Points, PointInfo{Enabled: len(en), RunningEnabled: false})
	}
	e.cur = en[c]
	e.wake[en[c]] <- struct{}{}
	if stall <= 0 {
		<-e.fin
	} else {
		last := int64(-1)
		for waiting := true; waiting; {
			select {
			case <-e.fin:
				waiting = false
			case <-time.After(stall):
				if atomic.LoadInt64(&e.progress) == last {
					// a thread is blocked on something the scheduler does not model
					e.Stalled = true
					e.abandoned = true
					waiting = false
				}
				last = atomic.LoadInt64(&e.progress)
			}
		}
	}
	active = nil
	return e
}

// Explorer enumerates all schedules with at most Bound preemptions (depth-first over choice
// prefixes, canonical enabled order: running thread first, then ascending ids).
type Explorer struct {
	Bound     int
	Stall     time.Duration
	Bodies    func() []func() string             // fresh bodies per execution
	Check     func(x *Exec, schedule []int) bool // false: stop exploring
	Schedules int64
	Points    int64
	MaxPoints int
	Stalls    int64
	MaxStalls int64 // stop exploring after this many stalled executions (0: never); the caller reports the cap
	Diverged  string
	Stop      func() bool
	stopped   bool
}

func (ex *Explorer) Explore() {
	ex.explore(nil)
}

func preemptionsBefore(x *Exec, i int) int {
	p := 0
	for j := 0; j < i; j++ {
		if x.Points[j].RunningEnabled && x.Choices[j] != 0 {
			p++
		}
	}
	return p
}

func (ex *Explorer) explore(prefix []int) {
	if ex.stopped {
		return
	}
	if ex.Stop != nil && ex.Stop() {
		ex.stopped = true
		return
	}
	x := Run(ex.Bodies(), prefix, ex.Stall)
	ex.Schedules++
	ex.Points += int64(len(x.Points))
	if len(x.Points) > ex.MaxPoints {
		ex.MaxPoints = len(x.Points)
	}
	if x.Stalled {
		ex.Stalls++
		if ex.MaxStalls > 0 && ex.Stalls >= ex.MaxStalls {
			ex.stopped = true
		}
		return
	}
	if len(x.Points) < len(prefix) && x.Diverged == "" {
		x.Diverged = fmt.Sprintf("execution under a %d-choice prefix had only %d decision points", len(prefix), len(x.Points))
	}
	if x.Diverged != "" {
		// a replayed prefix must reproduce exactly: anything else is uncaptured nondeterminism
		ex.Diverged = x.Diverged
		ex.stopped = true
		return
	}
	if !ex.Check(x, x.Choices) {
		ex.stopped = true
		return
	}
	pre := preemptionsBefore(x, len(prefix))
	for i := len(prefix); i < len(x.Points); i++ {
		p := x.Points[i]
		cost := pre
		if p.RunningEnabled {
			cost++
		}
		if cost <= ex.Bound {
			for alt := 1; alt < p.Enabled; alt++ {
				np := append(append(make([]int, 0, i+1), x.Choices[:i]...), alt)
				ex.explore(np)
				if ex.stopped {
					return
				}
			}
		}
		// the default continuation took choice 0 at point i: no preemption added
	}
}
