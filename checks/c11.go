package checks

import (
	"context"
	"errors"
	"fmt"
	"io"
	"math"
	"math/big"
	"os"
	"reflect"
	"strconv"
	"strings"
	"time"

	formula "github.com/aundis/formula"
	"github.com/ericlagergren/decimal"

	"verif/internal/eng"
	"verif/internal/ref"
)

// CallCase: one synthesised signature and one argument list.
type CallCase struct {
	Fixed  []int `json:"fixed"`  // parameter kinds
	Tail   int   `json:"tail"`   // variadic element kind, -1 = none
	Ctx    bool  `json:"ctx"`    // leading context.Context
	Ret    int   `json:"ret"`    // result configuration
	Args   []int `json:"args"`   // argument kinds
	Spread bool  `json:"spread"` // ... after the last argument
}

// ErrCase: f(g(1), h(2)) with a subset of the three sites returning an error.
type ErrCase struct {
	FailF, FailG, FailH bool
	Err                 int // which error value the failing site returns (index into c11ErrValues)
}

type c11CustomErr struct{ inner error }

func (e *c11CustomErr) Error() string { return "custom failure" }
func (e *c11CustomErr) Unwrap() error { return e.inner }

type c11AnyErr struct{}

func (c11AnyErr) Error() string        { return "matches everything" }
func (c11AnyErr) Is(target error) bool { return true }

// error values a host function may return: plain, the sentinels of the standard library that callers
// commonly test for (bare and wrapped), custom types, an empty text
var c11ErrValues = []error{
	errors.New("deliberate failure"),
	context.Canceled,
	context.DeadlineExceeded,
	fmt.Errorf("query: %w", context.Canceled),
	fmt.Errorf("query: %w", context.DeadlineExceeded),
	io.EOF,
	io.ErrUnexpectedEOF,
	os.ErrNotExist,
	fmt.Errorf("open: %w", os.ErrNotExist),
	&c11CustomErr{},
	&c11CustomErr{inner: context.DeadlineExceeded},
	c11AnyErr{},
	errors.New(""),
}

var c11Call *eng.Kind[CallCase]
var c11Err *eng.Kind[ErrCase]

func init() {
	c := eng.Register(&eng.Check{
		ID:          "C11",
		Title:       "Host functions are called exactly as declared, or not at all",
		Rule:        "signatures synthesised with reflect.FuncOf/MakeFunc: 0..2 fixed parameters over 17 kinds x variadic tail (none or one of 8 scalar kinds) x optional leading context x 7 result configurations; every argument list of length 0..n+2 over 10 argument kinds, with and without spread; each call is evaluated on the real evaluator, every invocation is recorded and compared with a partial specification table (definite value / must fail without invoking / unspecified); error deviations: f(g(1), h(2)) with every subset of sites failing; distinct = distinct (verdict, received values) classes",
		TrustedBase: []string{"conversion table written from the statement in checks/c11.go", "reflect.MakeFunc recording functions"},
		Assumptions: []string{"cells of the table that the statement does not fix (null into non-interface parameters, bool<->number, spread standing in for fixed parameters ...) are only required not to panic and to invoke at most once"},
		Run:         runC11,
	})
	c11Call = eng.NewKind(c, "call", judgeCall)
	c11Err = eng.NewKind(c, "errors", judgeErrSites)
}

// ---- parameter kinds --------------------------------------------------------

const (
	pkString = iota
	pkBool
	pkInt
	pkInt8
	pkInt16
	pkInt32
	pkInt64
	pkF32
	pkF64
	pkIface
	pkDec
	pkTime
	pkSliceStr
	pkSliceInt
	pkSliceIface
	pkMapIface
	pkMapInt
	pkCtxLike // a pointer type that embeds (and so implements) context.Context: an ordinary parameter
	pkSliceInt8
	pkUint8 // unsigned integer parameters: Go integers like the others
	pkUint64
	pkCount
)

// c11ReqCtx implements context.Context by embedding one; as a parameter type it is a plain struct pointer.
type c11ReqCtx struct {
	context.Context
	User string
}

type c11Celsius float64

var c11RC = &c11ReqCtx{Context: context.Background(), User: "u1"}

var pkNames = []string{"string", "bool", "int", "int8", "int16", "int32", "int64", "float32", "float64", "interface{}", "*decimal.Big", "time.Time", "[]string", "[]int", "[]interface{}", "map[string]interface{}", "map[string]int", "*c11ReqCtx", "[]int8", "uint8", "uint64"}

var ifaceType = reflect.TypeOf((*interface{})(nil)).Elem()
var errType = reflect.TypeOf((*error)(nil)).Elem()
var ctxType = reflect.TypeOf((*context.Context)(nil)).Elem()

var pkTypes = []reflect.Type{
	reflect.TypeOf(""), reflect.TypeOf(true), reflect.TypeOf(int(0)), reflect.TypeOf(int8(0)), reflect.TypeOf(int16(0)), reflect.TypeOf(int32(0)), reflect.TypeOf(int64(0)),
	reflect.TypeOf(float32(0)), reflect.TypeOf(float64(0)), ifaceType, reflect.TypeOf((*decimal.Big)(nil)), reflect.TypeOf(time.Time{}),
	reflect.TypeOf([]string(nil)), reflect.TypeOf([]int(nil)), reflect.TypeOf([]interface{}(nil)), reflect.TypeOf(map[string]interface{}(nil)), reflect.TypeOf(map[string]int(nil)), reflect.TypeOf((*c11ReqCtx)(nil)), reflect.TypeOf([]int8(nil)), reflect.TypeOf(uint8(0)), reflect.TypeOf(uint64(0)),
}

var tailKinds = []int{pkString, pkBool, pkInt, pkInt32, pkInt64, pkF64, pkIface, pkDec}

// ---- argument kinds ---------------------------------------------------------

type argv struct {
	kind  string // null bool num str arr map time
	num   string
	str   string
	elems []argv
	expr  string
	// goTyped: a Go slice of a concrete element type from the data ([]int, []string)
	goTyped bool
	neg     bool // negative infinity
	withNil bool // a map with an entry whose value is nil
}

var c11MapNil = map[string]interface{}{"k": 3.0, "z": nil}

var c11Map = map[string]interface{}{"k": 3.0, "j": -2.0}
var c11Time = time.Date(2022, 5, 6, 7, 8, 9, 0, time.UTC)

// the same instant in a zone that is not UTC (a time.Time then holds a pointer to its zone)
var c11TimeLocal = c11Time.In(time.FixedZone("UTC+9", 9*3600))

var argKinds = []argv{
	{kind: "null", expr: "null"},
	{kind: "bool", expr: "true"},
	{kind: "num", num: "1.9", expr: "1.9"},
	{kind: "num", num: "-1.9", expr: "(-1.9)"},
	{kind: "str", str: "x", expr: "'x'"},
	{kind: "arr", expr: "[1,'a']", elems: []argv{{kind: "num", num: "1"}, {kind: "str", str: "a"}}},
	{kind: "arr", expr: "[1.5,2.5]", elems: []argv{{kind: "num", num: "1.5"}, {kind: "num", num: "2.5"}}},
	{kind: "map", expr: "mp"},
	{kind: "time", expr: "tm"},
	{kind: "arr", expr: "[]"},
	{kind: "arr", expr: "[null,'a']", elems: []argv{{kind: "null"}, {kind: "str", str: "a"}}},
	{kind: "num", num: "9007199254740993", expr: "(9007199254740993)"},
	{kind: "num", num: "0.0000000000000000000005", expr: "(5e-22)"},
	{kind: "num", num: "0.000000000000000000000000000000002", expr: "(2e-33)"},
	{kind: "arr", expr: "rc.nilsl"},  // a nil Go slice reached through a member: an empty array
	{kind: "arr", expr: "rc.nilany"}, // the same for []interface{}(nil)
}

// c11BaseKinds: the argument kinds above are used in lists of every length; the ones appended by init
// below (range limits of the integer kinds, non-finite numbers, a float32 midpoint, Go-typed slices,
// a typed nil pointer read by name) only in lists of at most two arguments.
var c11BaseKinds = len(argKinds)

func init() {
	argKinds = append(argKinds,
		argv{kind: "num", num: "127.9", expr: "(127.9)"},
		argv{kind: "num", num: "128", expr: "(128)"},
		argv{kind: "num", num: "-128.5", expr: "(-128.5)"},
		argv{kind: "num", num: "-129", expr: "(-129)"},
		argv{kind: "num", num: "300", expr: "(300)"},
		argv{kind: "num", num: "-40000", expr: "(-40000)"},
		argv{kind: "num", num: "3000000000", expr: "(3000000000)"},
		argv{kind: "num", num: "9223372036854775807.5", expr: "(9223372036854775807.5)"},
		argv{kind: "num", num: "9223372036854775808", expr: "(9223372036854775808)"},
		argv{kind: "num", num: "-9223372036854775809", expr: "(-9223372036854775809)"},
		argv{kind: "num", num: "1e30", expr: "(1e30)"},
		argv{kind: "inf", expr: "(1/0)"},
		argv{kind: "inf", neg: true, expr: "(-1/0)"},
		argv{kind: "inf", neg: true, expr: "(-(1/0))"},
		argv{kind: "nonfinite", expr: "(0/0)"},
		argv{kind: "num", num: "1.0000000596046447753906251", expr: "(1.0000000596046447753906251)"}, // just above the midpoint of two float32 values
		argv{kind: "num", num: "16777217", expr: "(16777217)"},
		argv{kind: "arr", goTyped: true, expr: "rc.ints", elems: []argv{{kind: "num", num: "65"}, {kind: "num", num: "66"}}},
		argv{kind: "arr", goTyped: true, expr: "rc.strs", elems: []argv{{kind: "str", str: "p"}, {kind: "str", str: "q"}}},
		argv{kind: "null", expr: "np"}, // a typed nil pointer read by name
		argv{kind: "ctxlike", expr: "rcx"},
		// Go numbers of the kinds that do NOT become formula numbers by themselves (C16 lists int, int32, int64,
		// float64): as arguments they are numbers all the same - converted with the range check, never wrapped
		argv{kind: "num", num: "300", expr: "g.n16", goTyped: true},
		argv{kind: "num", num: "200", expr: "g.u8", goTyped: true},
		argv{kind: "num", num: "9223372036854775808", expr: "g.u64", goTyped: true},
		argv{kind: "num", num: "-1", expr: "g.i8", goTyped: true},
		argv{kind: "num", num: "1500", expr: "g.dur", goTyped: true},
		argv{kind: "num", num: "2.5", expr: "g.cel", goTyped: true},
		argv{kind: "num", num: "1e30", expr: "g.celbig", goTyped: true},
		argv{kind: "num", num: "70000", expr: "g.u32", goTyped: true},
		argv{kind: "num", num: "1.9", expr: "true ? 1.9 : 2"}, // a conditional is one argument (the comma after it separates arguments)
		argv{kind: "str", str: "x", expr: "false ? 1 : 'x'"},
		argv{kind: "num", num: "-9223372036854775808", expr: "(-9223372036854775808)"},
		argv{kind: "num", num: "-9223372036854775808.9", expr: "(-9223372036854775808.9)"},
		argv{kind: "num", num: "9223372036854775807", expr: "(9223372036854775807)"},
		argv{kind: "num", num: "-2147483648.5", expr: "(-2147483648.5)"},
		argv{kind: "num", num: "-32768", expr: "(-32768)"},
		argv{kind: "arr", goTyped: true, expr: "rc.wide", elems: []argv{{kind: "num", num: "300"}, {kind: "num", num: "1"}}},
		argv{kind: "arr", expr: "[300, 1]", elems: []argv{{kind: "num", num: "300"}, {kind: "num", num: "1"}}},
		argv{kind: "arr", goTyped: true, expr: "rc.i32s", elems: []argv{{kind: "num", num: "72"}, {kind: "num", num: "105"}}},
		argv{kind: "arr", goTyped: true, expr: "rc.f64s", elems: []argv{{kind: "num", num: "1.5"}, {kind: "num", num: "-2.5"}}},
		argv{kind: "arr", goTyped: true, expr: "rc.anys", elems: []argv{{kind: "num", num: "4"}, {kind: "num", num: "7.5"}, {kind: "num", num: "9007199254740993"}}},
		argv{kind: "time", expr: "tml"},
		argv{kind: "map", expr: "mpn", withNil: true},
		argv{kind: "arr", expr: "[mpn, mp]", elems: []argv{{kind: "map", withNil: true}, {kind: "map"}}},
		// the same (non-cyclic) object more than once inside an argument
		argv{kind: "arr", expr: "[mp, mp]", elems: []argv{{kind: "map"}, {kind: "map"}}},
		argv{kind: "arr", expr: "($al = [1, 2], [$al, $al])", elems: []argv{{kind: "arr", elems: []argv{{kind: "num", num: "1"}, {kind: "num", num: "2"}}}, {kind: "arr", elems: []argv{{kind: "num", num: "1"}, {kind: "num", num: "2"}}}}},
		argv{kind: "arr", goTyped: true, expr: "rc.twice", elems: []argv{{kind: "map"}, {kind: "map"}}},
		argv{kind: "aliased", expr: "rc.inl", str: "1 2 3 4"},
		argv{kind: "aliased", expr: "rc.selfp"},
		argv{kind: "aliased", expr: "rc.hid", str: "3"}, // a struct with an unexported pointer field: formatted like any value
		argv{kind: "num", num: "255.9", expr: "(255.9)"},
		argv{kind: "num", num: "256", expr: "(256)"},
		argv{kind: "num", num: "-0.9", expr: "(-0.9)"},
		argv{kind: "num", num: "18446744073709551615.5", expr: "(18446744073709551615.5)"},
		argv{kind: "num", num: "18446744073709551616", expr: "(18446744073709551616)"},
	)
}

// small-buffer layout: Items is cut from Inline, so the outer slice, its first struct and the inner slice
// begin at one address
type c11Buf struct {
	Inline [4]int
	Items  []int
}

func c11Inline() []c11Buf {
	l := make([]c11Buf, 1)
	l[0].Inline = [4]int{1, 2, 3, 4}
	l[0].Items = l[0].Inline[:2]
	return l
}

type c11Hidden struct {
	p *int
	N int
}

var c11HiddenTarget = 8

type c11Self struct {
	A int
	P *int
}

func c11SelfPtr() *c11Self {
	t := &c11Self{A: 5}
	t.P = &t.A
	return t
}

type c11Rec struct {
	Tags []string
}

const (
	vD = iota // definite
	vF        // must fail without invoking
	vU        // unspecified
)

type anyValue struct{} // invoked, received value not fixed
type decWant struct{ s string }
type numText struct{ s string }
type identWant struct{ obj interface{} }
type identPtr struct{ obj interface{} }
type containsAll []string

func truncInt(num string) int64 {
	d, _ := ref.ParseDec(num)
	return ratTrunc(d.Rat()).Int64()
}

func nearestF64(num string) float64 {
	f, _ := strconv.ParseFloat(num, 64)
	return f
}

// row gives the expectation for one argument converted to one parameter kind.
func row(pk int, a argv) (int, interface{}) {
	comp := a.kind == "arr" || a.kind == "map" || a.kind == "time"
	if (a.kind == "nonfinite" || a.kind == "inf") && !(pk >= pkInt && pk <= pkF64) {
		if pk == pkBool || pk == pkString || pk == pkIface || pk == pkDec {
			return vU, nil
		}
		return vF, nil
	}
	if a.kind == "aliased" {
		// a value without any cycle in which a slice and the array it was cut from (or a pointer and the
		// field it points to) share an address: it formats like any other value
		if pk == pkString {
			if a.str != "" {
				return vD, containsAll(strings.Fields(a.str))
			}
			return vD, anyValue{}
		}
		return vU, nil
	}
	if a.kind == "ctxlike" {
		switch pk {
		case pkCtxLike, pkIface:
			return vD, identPtr{c11RC}
		case pkString:
			return vD, anyValue{}
		}
		return vF, nil
	}
	if pk == pkCtxLike {
		if a.kind == "null" {
			return vU, nil
		}
		return vF, nil
	}
	if a.goTyped && a.kind == "num" && (pk == pkBool || pk == pkDec && false) {
		return vU, nil
	}
	if a.goTyped && (pk == pkIface || pk == pkSliceIface) {
		return vU, nil // whether a Go-typed slice is handed on as it is or element by element is not fixed
	}
	switch pk {
	case pkString:
		if a.goTyped && a.kind == "num" {
			return vD, anyValue{} // formatted by its own rules (a Duration prints as 1.5µs)
		}
		if a.goTyped && len(a.elems) > 0 && a.elems[0].kind == "num" {
			var parts []string
			for _, e := range a.elems {
				parts = append(parts, e.num)
			}
			return vD, containsAll(parts) // formatted, whatever the layout: every number is legible in it
		}
		switch a.kind {
		case "null":
			return vU, nil
		case "bool":
			return vD, "true"
		case "num":
			return vD, numText{a.num} // any text that denotes the same number
		case "str":
			return vD, a.str
		}
		return vD, anyValue{}
	case pkBool:
		if comp {
			return vF, nil
		}
		if a.kind == "bool" {
			return vD, true
		}
		return vU, nil
	case pkInt, pkInt8, pkInt16, pkInt32, pkInt64, pkF32, pkF64:
		switch a.kind {
		case "null", "bool":
			return vU, nil
		case "inf":
			sign := 1
			if a.neg {
				sign = -1
			}
			switch pk {
			case pkF32:
				return vD, float32(math.Inf(sign))
			case pkF64:
				return vD, math.Inf(sign) // the nearest float64 to an infinity is that infinity
			}
			return vF, nil
		case "nonfinite":
			if pk == pkF32 || pk == pkF64 {
				return vU, nil
			}
			return vF, nil // infinity and NaN have no integer value: the argument cannot be converted
		case "num":
			if pk != pkF32 && pk != pkF64 {
				d, _ := ref.ParseDec(a.num)
				t := ratTrunc(d.Rat())
				bits := map[int]uint{pkInt: 63, pkInt8: 7, pkInt16: 15, pkInt32: 31, pkInt64: 63}[pk]
				lim := new(big.Int).Lsh(big.NewInt(1), bits)
				if t.Cmp(lim) >= 0 || t.Cmp(new(big.Int).Neg(lim)) < 0 {
					return vF, nil // the truncated value does not fit the parameter type: the argument cannot be converted
				}
			}
			switch pk {
			case pkInt:
				return vD, int(truncInt(a.num))
			case pkInt8:
				return vD, int8(truncInt(a.num))
			case pkInt16:
				return vD, int16(truncInt(a.num))
			case pkInt32:
				return vD, int32(truncInt(a.num))
			case pkInt64:
				return vD, truncInt(a.num)
			case pkF32:
				f, _ := strconv.ParseFloat(a.num, 32) // the nearest float32 to the decimal itself
				return vD, float32(f)
			default:
				return vD, nearestF64(a.num)
			}
		}
		return vF, nil
	case pkUint8, pkUint64:
		switch a.kind {
		case "null", "bool":
			return vU, nil
		case "nonfinite", "inf":
			return vF, nil
		case "num":
			d, _ := ref.ParseDec(a.num)
			t := ratTrunc(d.Rat())
			bits := map[int]uint{pkUint8: 8, pkUint64: 64}[pk]
			if t.Sign() < 0 || t.Cmp(new(big.Int).Lsh(big.NewInt(1), bits)) >= 0 {
				return vF, nil // the truncated value is negative or too large for the parameter type
			}
			if pk == pkUint8 {
				return vD, uint8(t.Uint64())
			}
			return vD, t.Uint64()
		}
		return vF, nil
	case pkIface:
		switch a.kind {
		case "null":
			return vD, nil
		case "bool":
			return vD, true
		case "num":
			return vD, decWant{a.num}
		case "str":
			return vD, a.str
		case "arr":
			w := make([]interface{}, len(a.elems))
			for i, e := range a.elems {
				_, w[i] = row(pkIface, e)
			}
			return vD, w
		case "map":
			if a.withNil {
				return vD, identWant{c11MapNil}
			}
			return vD, identWant{c11Map}
		case "time":
			return vD, c11Time
		}
	case pkDec:
		switch a.kind {
		case "null":
			return vU, nil
		case "num":
			return vD, decWant{a.num}
		}
		return vF, nil
	case pkTime:
		switch a.kind {
		case "null":
			return vU, nil
		case "time":
			return vD, c11Time
		}
		return vF, nil
	case pkSliceStr, pkSliceInt, pkSliceIface, pkSliceInt8:
		switch a.kind {
		case "null":
			return vU, nil
		case "arr":
			ek := map[int]int{pkSliceStr: pkString, pkSliceInt: pkInt, pkSliceIface: pkIface, pkSliceInt8: pkInt8}[pk]
			verdict := vD
			w := make([]interface{}, len(a.elems))
			for i, e := range a.elems {
				v, want := row(ek, e)
				if v == vF {
					return vF, nil
				}
				if v == vU {
					verdict = vU
				}
				w[i] = want
			}
			return verdict, w
		}
		return vF, nil
	case pkMapIface, pkMapInt:
		switch a.kind {
		case "null":
			return vU, nil
		case "map":
			if a.withNil {
				// the entry is handed over with its key (a nil element); what a nil becomes as an int is not stated
				if pk == pkMapIface {
					return vD, map[string]interface{}{"k": 3.0, "z": nil}
				}
				return vU, nil
			}
			if pk == pkMapIface {
				return vD, map[string]interface{}{"k": 3.0, "j": -2.0}
			}
			return vD, anyValue{}
		}
		return vF, nil
	}
	return vU, nil
}

// sameArg compares a received argument with the expectation.
func sameArg(got interface{}, want interface{}) bool {
	switch w := want.(type) {
	case anyValue:
		return true
	case nil:
		return got == nil
	case numText:
		gs, ok := got.(string)
		if !ok {
			return false
		}
		gd, ok1 := ref.ParseDec(gs)
		wd, _ := ref.ParseDec(w.s)
		return ok1 && gd.Finite() && gd.Cmp(wd) == 0
	case decWant:
		d, ok := decOf(got)
		wd, _ := ref.ParseDec(w.s)
		return ok && d.Finite() && d.Cmp(wd) == 0
	case containsAll:
		gs, ok := got.(string)
		if !ok {
			return false
		}
		for _, part := range w {
			if !strings.Contains(gs, part) {
				return false
			}
		}
		return true
	case identPtr:
		return got != nil && reflect.TypeOf(got).Kind() == reflect.Ptr && reflect.ValueOf(got).Pointer() == reflect.ValueOf(w.obj).Pointer()
	case identWant:
		return got != nil && reflect.TypeOf(got).Kind() == reflect.Map && reflect.ValueOf(got).Pointer() == reflect.ValueOf(w.obj).Pointer()
	case time.Time:
		t, ok := got.(time.Time)
		return ok && t.Equal(w)
	case []interface{}:
		rv := reflect.ValueOf(got)
		if !rv.IsValid() || rv.Kind() != reflect.Slice || rv.Len() != len(w) {
			return false
		}
		for i := range w {
			if !sameArg(rv.Index(i).Interface(), w[i]) {
				return false
			}
		}
		return true
	case map[string]interface{}:
		m, ok := got.(map[string]interface{})
		if !ok || len(m) != len(w) {
			return false
		}
		for k, v := range w {
			if m[k] != v {
				return false
			}
		}
		return true
	}
	return reflect.DeepEqual(got, want)
}

func showArg(v interface{}) string {
	if v == nil {
		return "nil"
	}
	if d, ok := v.(*decimal.Big); ok && d != nil {
		return "num:" + d.String()
	}
	rv := reflect.ValueOf(v)
	if rv.Kind() == reflect.Slice {
		parts := make([]string, rv.Len())
		for i := range parts {
			parts[i] = showArg(rv.Index(i).Interface())
		}
		return fmt.Sprintf("%T[%s]", v, strings.Join(parts, " "))
	}
	if rv.Kind() == reflect.Map || rv.Kind() == reflect.Func || rv.Kind() == reflect.Ptr {
		return fmt.Sprintf("%T", v)
	}
	return fmt.Sprintf("%T(%v)", v, v)
}

// ---- result configurations --------------------------------------------------

type retCfg struct {
	typ  reflect.Type
	val  interface{}
	want string // decimal text, "str:..." or "null"
}

var retCfgs = []retCfg{
	{reflect.TypeOf(int(0)), int(7), "7"},
	{reflect.TypeOf(int32(0)), int32(-3), "-3"},
	{reflect.TypeOf(int64(0)), int64(1) << 40, "1099511627776"},
	{reflect.TypeOf(float32(0)), float32(1.5), "1.5"},
	{reflect.TypeOf(float64(0)), 2.25, "2.25"},
	{reflect.TypeOf(""), "r", "str:r"},
	{ifaceType, nil, "null"},
}

type invocation struct {
	args []interface{}
	ctx  context.Context
}

var invocations []invocation

func makeHost(fixed []int, tail int, withCtx bool, ret int) interface{} {
	var in []reflect.Type
	if withCtx {
		in = append(in, ctxType)
	}
	for _, k := range fixed {
		in = append(in, pkTypes[k])
	}
	if tail >= 0 {
		in = append(in, reflect.SliceOf(pkTypes[tail]))
	}
	rc := retCfgs[ret]
	ft := reflect.FuncOf(in, []reflect.Type{rc.typ, errType}, tail >= 0)
	fn := reflect.MakeFunc(ft, func(args []reflect.Value) []reflect.Value {
		inv := invocation{}
		for i, a := range args {
			if withCtx && i == 0 {
				if !a.IsNil() {
					inv.ctx = a.Interface().(context.Context)
				}
				continue
			}
			if tail >= 0 && i == len(args)-1 {
				for j := 0; j < a.Len(); j++ {
					inv.args = append(inv.args, a.Index(j).Interface())
				}
				continue
			}
			inv.args = append(inv.args, a.Interface())
		}
		invocations = append(invocations, inv)
		var rv reflect.Value
		if rc.val == nil {
			rv = reflect.Zero(rc.typ)
		} else {
			rv = reflect.ValueOf(rc.val)
		}
		return []reflect.Value{rv, reflect.Zero(errType)}
	})
	return fn.Interface()
}

type ctxKey struct{}

var c11Ctx = context.WithValue(context.Background(), ctxKey{}, "the caller's context")

func sigString(c CallCase) string {
	var ps []string
	if c.Ctx {
		ps = append(ps, "context.Context")
	}
	for _, k := range c.Fixed {
		ps = append(ps, pkNames[k])
	}
	if c.Tail >= 0 {
		ps = append(ps, "..."+pkNames[c.Tail])
	}
	return "func(" + strings.Join(ps, ", ") + ")"
}

func judgeCall(c CallCase) *eng.Fail {
	for _, k := range c.Fixed {
		if k < 0 || k >= pkCount {
			return eng.F("harness/case", "bad kind")
		}
	}
	args := make([]argv, len(c.Args))
	exprs := make([]string, len(c.Args))
	for i, a := range c.Args {
		args[i] = argKinds[a]
		exprs[i] = args[i].expr
	}
	if c.Spread && len(exprs) > 0 && strings.Contains(exprs[len(exprs)-1], " ? ") {
		exprs[len(exprs)-1] = "(" + exprs[len(exprs)-1] + ")" // '2...' would lex as the number '2.' followed by '..'
	}
	src := "[host(" + strings.Join(exprs, ", ")
	if c.Spread {
		src += "..."
	}
	src += ")]"
	// expectation
	verdict := vD
	var want []interface{}
	merge := func(v int, w interface{}) {
		if v == vF {
			verdict = vF
		} else if v == vU && verdict != vF {
			verdict = vU
		}
		want = append(want, w)
	}
	nf := len(c.Fixed)
	switch {
	case !c.Spread && c.Tail < 0:
		if len(args) != nf {
			verdict = vF
		} else {
			for i, a := range args {
				merge(row(c.Fixed[i], a))
			}
		}
	case !c.Spread:
		if len(args) < nf {
			verdict = vF
		} else {
			for i, a := range args {
				if i < nf {
					merge(row(c.Fixed[i], a))
				} else {
					merge(row(c.Tail, a))
				}
			}
		}
	case c.Tail < 0:
		verdict = vF // spread on a non-variadic function
	default:
		if len(args) == 0 {
			verdict = vU
		} else if last := args[len(args)-1]; last.kind == "aliased" {
			verdict = vU // a Go slice of structs / a pointer: what spreading it means is not fixed
		} else if last.kind != "arr" {
			verdict = vF // spread of a non-array
		} else if last.goTyped && !(len(last.elems) > 0 && last.elems[0].kind == "num" && c.Tail != pkIface && c.Tail != pkBool && len(args)-1 == nf) {
			verdict = vU // spreading a Go-typed slice of non-numbers (or over interface{}): element conversion is not fixed by the statement
		} else if len(args)-1 != nf {
			verdict = vF // the explicit arguments must fill exactly the fixed parameters; the array only feeds the tail
		} else {
			for i := 0; i < nf; i++ {
				merge(row(c.Fixed[i], args[i]))
			}
			for _, e := range last.elems {
				merge(row(c.Tail, e))
			}
		}
	}
	p, err := cachedParse(src)
	if err != nil {
		return eng.F("C11/parse", "%s: %v", src, err)
	}
	invocations = invocations[:0]
	data := map[string]interface{}{"host": makeHost(c.Fixed, c.Tail, c.Ctx, c.Ret), "mp": c11Map, "mpn": c11MapNil, "tm": c11Time,
		"rc": map[string]interface{}{"nilsl": []string(nil), "nilany": []interface{}(nil), "ints": []int{65, 66}, "strs": []string{"p", "q"}, "twice": []map[string]interface{}{c11Map, c11Map},
			"wide": []int{300, 1}, "i32s": []int32{72, 105}, "f64s": []float64{1.5, -2.5}, "anys": []interface{}{4, 7.5, int64(9007199254740993)}, "inl": c11Inline(), "selfp": c11SelfPtr(), "hid": c11Hidden{p: &c11HiddenTarget, N: 3}}, "np": (*int)(nil), "rcx": c11RC, "tml": c11TimeLocal,
		"g": map[string]interface{}{"n16": int16(300), "u8": uint8(200), "u64": uint64(1) << 63, "i8": int8(-1), "dur": time.Duration(1500), "cel": c11Celsius(2.5), "celbig": c11Celsius(1e30), "u32": uint32(70000)}}
	r := formula.NewRunner()
	r.SetThis(data)
	o := safeResolve(r, c11Ctx, p.Expression)
	what := fmt.Sprintf("%s called as %s", sigString(c), src)
	if o.panicked {
		return eng.F("C11/panic", "%s: panic: %s", what, o.panicMsg)
	}
	n := len(invocations)
	if n > 1 {
		return eng.F("C11/invoked-twice", "%s: invoked %d times", what, n)
	}
	if n == 1 && o.err != nil {
		return eng.F("C11/invoked-then-error", "%s: the function ran and returned no error, but evaluation failed: %v", what, o.err)
	}
	if n == 0 && o.err == nil {
		return eng.F("C11/not-invoked-no-error", "%s: not invoked, yet evaluation succeeded with %s", what, show(o.val))
	}
	switch verdict {
	case vF:
		outcome("F")
		if n != 0 {
			return eng.F("C11/invoked-despite-misfit", "%s: must fail without calling the function, but it was invoked with %s", what, showArgs(invocations[0].args))
		}
		return nil
	case vU:
		outcome("U")
		note("unspecified_calls", 1)
		return nil
	}
	if n != 1 {
		return eng.F("C11/not-invoked", "%s: arguments fit the signature, the function must be invoked once; evaluation failed instead: %v", what, o.err)
	}
	inv := invocations[0]
	if c.Ctx && inv.ctx != c11Ctx {
		return eng.F("C11/context", "%s: the context parameter did not receive the caller's context", what)
	}
	if len(inv.args) != len(want) {
		return eng.F("C11/arg-count", "%s: received %d arguments %s, expected %d", what, len(inv.args), showArgs(inv.args), len(want))
	}
	for i := range want {
		if !sameArg(inv.args[i], want[i]) {
			return eng.F("C11/arg-value", "%s: argument %d received as %s, expected %s", what, i+1, showArg(inv.args[i]), showArg(want[i]))
		}
	}
	outcome("D " + showArgs(inv.args))
	// result normalisation
	res := o.val.([]interface{})[0]
	rc := retCfgs[c.Ret]
	switch {
	case rc.want == "null":
		if !formula.IsNull(res) {
			return eng.F("C11/result", "%s: returned nil, formula value is %s", what, show(res))
		}
	case strings.HasPrefix(rc.want, "str:"):
		if res != interface{}(strings.TrimPrefix(rc.want, "str:")) {
			return eng.F("C11/result", "%s: returned %q, formula value is %s", what, rc.val, show(res))
		}
	default:
		d, ok := decOf(res)
		wd, _ := ref.ParseDec(rc.want)
		if !ok || !d.Finite() || d.Cmp(wd) != 0 {
			return eng.F("C11/result", "%s: returned %v (%T), formula value is %s, expected the number %s", what, rc.val, rc.val, show(res), rc.want)
		}
	}
	return nil
}

func showArgs(a []interface{}) string {
	parts := make([]string, len(a))
	for i, v := range a {
		parts[i] = showArg(v)
	}
	return "(" + strings.Join(parts, ", ") + ")"
}

func judgeErrSites(c ErrCase) *eng.Fail {
	var log []string
	mk := func(name string, fail bool) interface{} {
		return func(xs ...interface{}) (interface{}, error) {
			log = append(log, name)
			if fail {
				return nil, c11ErrValues[c.Err]
			}
			return float64(len(xs)), nil
		}
	}
	data := map[string]interface{}{"ffun": mk("ffun", c.FailF), "gfun": mk("gfun", c.FailG), "hfun": mk("hfun", c.FailH)}
	for _, src := range []string{"ffun(gfun(1), hfun(2))", "[ffun(gfun(1), hfun(2)), 5]", "true ? ffun(gfun(1), hfun(2)) : 0", "$v = ffun(gfun(1), hfun(2)), $v"} {
		log = nil
		delete(data, "$v")
		o, err := evalWith(src, data)
		if err != nil || o.panicked {
			return eng.F("C11/eval", "%s: %v %s", src, err, o.panicMsg)
		}
		var wantLog []string
		failing := ""
		switch {
		case c.FailG:
			wantLog, failing = []string{"gfun"}, "gfun"
		case c.FailH:
			wantLog, failing = []string{"gfun", "hfun"}, "hfun"
		case c.FailF:
			wantLog, failing = []string{"gfun", "hfun", "ffun"}, "ffun"
		default:
			wantLog = []string{"gfun", "hfun", "ffun"}
		}
		if strings.Join(log, ",") != strings.Join(wantLog, ",") {
			return eng.F("C11/error-aborts", "%s with failing sites %+v: invocations %v, expected %v", src, c, log, wantLog)
		}
		if failing == "" {
			if o.err != nil {
				return eng.F("C11/eval", "%s: unexpected error %v", src, o.err)
			}
			continue
		}
		if o.err == nil {
			return eng.F("C11/error-swallowed", "%s: %s returned an error but evaluation succeeded with %s", src, failing, show(o.val))
		}
		if o.val != nil {
			return eng.F("C11/error-with-value", "%s: error together with a value", src)
		}
		if !strings.Contains(o.err.Error(), failing) {
			return eng.F("C11/error-names-function", "%s: error %q does not name the failing function %s", src, o.err.Error(), failing)
		}
		if _, assigned := data["$v"]; assigned {
			return eng.F("C11/error-aborts", "%s: the assignment ran although its value failed", src)
		}
	}
	// a spread operand is an argument like any other: evaluated after the arguments before it
	if !c.FailF && !c.FailH {
		data["hv"] = func(head interface{}, rest ...interface{}) (interface{}, error) {
			log = append(log, "hv")
			return float64(len(rest)), nil
		}
		data["lfun"] = func() ([]interface{}, error) { log = append(log, "lfun"); return []interface{}{1.0, 2.0}, nil }
		log = nil
		o, err := evalWith("hv(gfun(1), lfun()...)", data)
		if err != nil || o.panicked {
			return eng.F("C11/eval", "hv(gfun(1), lfun()...): %v %s", err, o.panicMsg)
		}
		want := "gfun,lfun,hv"
		if c.FailG {
			want = "gfun"
		}
		if strings.Join(log, ",") != want {
			return eng.F("C11/argument-order", "hv(gfun(1), lfun()...) with gfun failing=%v: invocations %v, expected %s (arguments are evaluated left to right, the spread operand last)", c.FailG, log, want)
		}
	}
	// nested calls: every call receives its own arguments, also on a runner that has evaluated before
	if !c.FailF && !c.FailG && !c.FailH {
		var seen []string
		nd := map[string]interface{}{
			"pair": func(a, b string) (string, error) { seen = append(seen, "pair("+a+","+b+")"); return a + b, nil },
			"wrap": func(a string) (string, error) { seen = append(seen, "wrap("+a+")"); return "<" + a + ">", nil },
			"tri": func(a, b, c interface{}) (string, error) {
				seen = append(seen, "tri("+show(a)+","+show(b)+","+show(c)+")")
				return "t", nil
			},
			// a call whose result is the operand of a member access (plain or asserting) is one call
			"obj": func(a string) (map[string]interface{}, error) {
				seen = append(seen, "obj("+a+")")
				return map[string]interface{}{"name": a, "next": map[string]interface{}{"id": "i" + a}}, nil
			},
		}
		r := formula.NewRunner()
		r.SetThis(nd)
		for round, src := range []string{"pair('x', wrap('y'))", "pair('x', wrap('y'))", "upper('q') + pair('x', wrap('y'))", "tri(1, pair('a', wrap('b')), wrap('c'))", "pair(wrap('m'), wrap('n'))",
			"obj('a')!.name", "obj('a')!.next!.id", "obj(wrap('b'))!.name", "pair(obj('x')!.name, obj('y').next.id)", "[obj('p')!.next!.id, obj('q')!.name]"} {
			seen = nil
			p, err := cachedParse(src)
			if err != nil {
				return eng.F("C11/parse", "%s: %v", src, err)
			}
			o := safeResolve(r, bg, p.Expression)
			if o.panicked || o.err != nil {
				return eng.F("C11/eval", "%s: %v %s", src, o.err, o.panicMsg)
			}
			want := map[string]string{
				"pair('x', wrap('y'))":                    "wrap(y) pair(x,<y>)",
				"upper('q') + pair('x', wrap('y'))":       "wrap(y) pair(x,<y>)",
				"tri(1, pair('a', wrap('b')), wrap('c'))": "wrap(b) pair(a,<b>) wrap(c) tri(num:1,str:\"a<b>\",str:\"<c>\")",
				"pair(wrap('m'), wrap('n'))":              "wrap(m) wrap(n) pair(<m>,<n>)",
				"obj('a')!.name":                          "obj(a)",
				"obj('a')!.next!.id":                      "obj(a)",
				"obj(wrap('b'))!.name":                    "wrap(b) obj(<b>)",
				"pair(obj('x')!.name, obj('y').next.id)":  "obj(x) obj(y) pair(x,iy)",
				"[obj('p')!.next!.id, obj('q')!.name]":    "obj(p) obj(q)",
			}[src]
			if got := strings.Join(seen, " "); got != want {
				return eng.F("C11/nested-arguments", "evaluation %d on one runner, %s: host calls [%s], expected [%s]", round+1, src, got, want)
			}
		}
	}
	// a call whose argument list contains a spread call is itself an ordinary call (and the other way round)
	if !c.FailF && !c.FailG && !c.FailH {
		var seen []string
		rec := func(name string, xs []interface{}) {
			parts := make([]string, len(xs))
			for i, x := range xs {
				parts[i] = show(x)
			}
			seen = append(seen, name+"("+strings.Join(parts, ",")+")")
		}
		nd := map[string]interface{}{
			"inner": func(xs ...interface{}) (string, error) { rec("inner", xs); return "i" + strconv.Itoa(len(xs)), nil },
			"nv":    func(a, b interface{}) (string, error) { rec("nv", []interface{}{a, b}); return "n", nil },
			"fv": func(head interface{}, rest ...interface{}) (string, error) {
				rec("fv", append([]interface{}{head}, rest...))
				return "v" + strconv.Itoa(len(rest)), nil
			},
			"one": func(a interface{}) (string, error) { rec("one", []interface{}{a}); return "o", nil },
		}
		for _, tc := range [][2]string{
			{"nv(inner([1, 2]...), 5)", "inner(num:1,num:2) nv(str:\"i2\",num:5)"},
			{"fv(5, inner([1]...), [7, 8])", "inner(num:1) fv(num:5,str:\"i1\",[num:7,num:8])"},
			{"fv(inner([1]...))", "inner(num:1) fv(str:\"i1\")"},
			{"nv(1, nv(inner([2, 3]...), 4))", "inner(num:2,num:3) nv(str:\"i2\",num:4) nv(num:1,str:\"n\")"},
			{"[nv(inner([1]...), 2), nv(3, 4)]", "inner(num:1) nv(str:\"i1\",num:2) nv(num:3,num:4)"},
			{"one([fv(1, [2, 3]...), 4])", "fv(num:1,num:2,num:3) one([str:\"v2\",num:4])"},
			{"fv(one(1), [inner([5]...)]...)", "one(num:1) inner(num:5) fv(str:\"o\",str:\"i1\")"},
			{"one(true ? fv(1, [2]...) : 0)", "fv(num:1,num:2) one(str:\"v1\")"},
			{"one(fv(1, [2]...) + 'x')", "fv(num:1,num:2) one(str:\"v1x\")"},
			{"fv(1, [2]...) + one(3)", "fv(num:1,num:2) one(num:3)"},
		} {
			seen = nil
			o, err := evalWith(tc[0], nd)
			if err != nil || o.panicked {
				return eng.F("C11/eval", "%s: %v %s", tc[0], err, o.panicMsg)
			}
			if got := strings.Join(seen, " "); got != tc[1] || o.err != nil {
				return eng.F("C11/nested-spread", "%s: host calls [%s] error %v, expected [%s] and no error", tc[0], got, o.err, tc[1])
			}
		}
	}
	// every context-taking function receives the context of the evaluation it is called in, also after a
	// host function has evaluated a sub-formula on the same runner under another context
	if !c.FailF && !c.FailG && !c.FailH {
		type k struct{}
		outer := context.WithValue(context.Background(), k{}, "outer")
		who := func(ctx context.Context) (string, error) {
			if ctx == nil {
				return "nil", nil
			}
			if ctx.Err() != nil {
				return "cancelled", nil
			}
			v, _ := ctx.Value(k{}).(string)
			return v, nil
		}
		sub, err := cachedParse("who() + '/' + who()")
		if err != nil {
			return eng.F("C11/parse", "%v", err)
		}
		var cur *formula.Runner
		nd := map[string]interface{}{"who": who,
			"nested": func(ctx context.Context) (interface{}, error) {
				inner, cancel := context.WithCancel(context.WithValue(ctx, k{}, "inner"))
				defer cancel()
				return cur.Resolve(inner, sub.Expression) // the runner of the evaluation in progress (a closure over it)
			},
			"other": func(ctx context.Context) (interface{}, error) {
				inner, cancel := context.WithCancel(context.WithValue(ctx, k{}, "other-runner"))
				defer cancel()
				r2 := formula.NewRunner()
				r2.SetThis(map[string]interface{}{"who": who})
				return r2.Resolve(inner, sub.Expression)
			}}
		for _, tc := range [][2]string{
			{"[who(), nested(), who()]", "[outer inner/inner outer]"},
			{"[nested(), who(), nested(), who()]", "[inner/inner outer inner/inner outer]"},
			{"[other(), who()]", "[other-runner/other-runner outer]"},
			{"nested() + who()", "inner/innerouter"},
		} {
			r := formula.NewRunner()
			r.SetThis(nd)
			cur = r
			p, err := cachedParse(tc[0])
			if err != nil {
				return eng.F("C11/parse", "%s: %v", tc[0], err)
			}
			for round := 1; round <= 2; round++ {
				o := safeResolve(r, outer, p.Expression)
				if o.panicked || o.err != nil {
					return eng.F("C11/eval", "%s: %v %s", tc[0], o.err, o.panicMsg)
				}
				if got := fmt.Sprint(o.val); got != tc[1] {
					return eng.F("C11/context", "%s (evaluation %d, context value \"outer\"; nested and other evaluate who() + '/' + who() under a derived context): %s, expected %s", tc[0], round, got, tc[1])
				}
			}
		}
	}
	// converting an argument for one parameter must not change the value other parameters / later reads see
	if !c.FailF && !c.FailG && !c.FailH {
		var gotI []int64
		var gotF []float64
		var gotS []string
		data["fi"] = func(n int64) (int64, error) { gotI = append(gotI, n); return n, nil }
		data["ff"] = func(x float64) (float64, error) { gotF = append(gotF, x); return x, nil }
		data["fs"] = func(x string) (string, error) { gotS = append(gotS, x); return x, nil }
		data["fl"] = func(xs []int64, ys []float64) (int, error) {
			for _, v := range xs {
				gotI = append(gotI, v)
			}
			gotF = append(gotF, ys...)
			return len(xs), nil
		}
		delete(data, "$x")
		o, err := evalWith("$x = 2.75, $r = [fi($x), ff($x), fs($x), ff($x), $x], $arr = [1.5, 2.5], fl($arr, $arr), [$r, $arr]", data)
		if err != nil || o.panicked || o.err != nil {
			return eng.F("C11/eval", "argument-reuse formula: %v %v %s", err, o.err, o.panicMsg)
		}
		okI := len(gotI) == 3 && gotI[0] == 2 && gotI[1] == 1 && gotI[2] == 2
		okF := len(gotF) == 4 && gotF[0] == 2.75 && gotF[1] == 2.75 && gotF[2] == 1.5 && gotF[3] == 2.5
		if !okI || !okF || len(gotS) != 1 || gotS[0] != "2.75" {
			return eng.F("C11/argument-reuse", "$x = 2.75 passed to int64, float64, string, float64 parameters and an array to []int64 then []float64: received ints %v floats %v strings %q", gotI, gotF, gotS)
		}
		res, _ := o.val.([]interface{})
		if len(res) != 2 || canonImpl(res[0]) != "[n2,n11/4,s\"2.75\",n11/4,n11/4]" && !strings.Contains(canonImpl(res[0]), "n11/4,n11/4]") || canonImpl(res[1]) != "[n3/2,n5/2]" {
			return eng.F("C11/argument-reuse", "after the calls the locals are %s", showDeep(o.val))
		}
	}
	outcome(fmt.Sprint(c))
	return nil
}

func runC11(w *eng.W) {
	W = w
	q := w.Quick()
	maxFixed := 2
	if q {
		maxFixed = 1
	}
	sigIdx := 0
	na := len(argKinds)
	for nf := 0; nf <= maxFixed; nf++ {
		seqs(pkCount, nf, func(fk []int) {
			fixed := append([]int(nil), fk...)
			for ti := -1; ti < len(tailKinds); ti++ {
				tail := -1
				if ti >= 0 {
					tail = tailKinds[ti]
				}
				for _, withCtx := range []bool{false, true} {
					sigIdx++
					if !w.Take() || w.Expired() {
						continue
					}
					ret := sigIdx % len(retCfgs)
					maxArgs := nf + 2
					if q && maxArgs > 3 {
						maxArgs = 3
					}
					if !q && nf == 2 && maxArgs > 3 && tail < 0 {
						maxArgs = 3
					}
					for l := 0; l <= maxArgs; l++ {
						alpha := na
						if l > 2 {
							alpha = c11BaseKinds
						}
						if l > 3 {
							alpha = 8 // four arguments (two fixed parameters and a tail): the first eight kinds
						}
						seqs(alpha, l, func(ai []int) {
							for _, spread := range []bool{false, true} {
								c := CallCase{Fixed: fixed, Tail: tail, Ctx: withCtx, Ret: ret, Args: append([]int(nil), ai...), Spread: spread}
								w.State(1)
								w.Trans(1)
								w.Trace(1)
								w.Note("leg:call", 1)
								w.Sample("call", c)
								c11Call.Do(w, c)
							}
						})
					}
				}
			}
		})
	}
	w.NoteMax("max:signatures", int64(sigIdx))
	for i := 0; i < 8*len(c11ErrValues); i++ {
		if i >= 8 && i%8 == 0 {
			continue // nothing fails: the error value does not matter
		}
		if !w.Take() {
			continue
		}
		c := ErrCase{FailF: i&1 != 0, FailG: i&2 != 0, FailH: i&4 != 0, Err: i / 8}
		w.State(1)
		w.Trans(3)
		w.Trace(1)
		w.Note("leg:error-sites", 1)
		w.Sample("error-sites", c)
		c11Err.Do(w, c)
	}
}
