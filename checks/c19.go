package checks

import (
	"fmt"
	"os"
	"strings"
	"time"
	_ "time/tzdata"

	formula "github.com/aundis/formula"

	"verif/internal/eng"
	"verif/internal/ref"
)

// DateCase: date(y,m,d) (+ optional addDate shift) in the worker's zone.
type DateCase struct {
	Zone       string `json:"zone"`
	Y, M, D    int
	DY, DM, DD int
	Shift      bool `json:"shift"`
}

// TodCase: a time of day supplied as data.
type TodCase struct {
	Zone               string `json:"zone"`
	Y, Mo, D, H, Mi, S int
	Target             string `json:"target"` // useTimezone target ("" = none)
}

var c19Date *eng.Kind[DateCase]
var c19Tod *eng.Kind[TodCase]
var c19Now *eng.Kind[SrcCase]

var c19Zones = []string{"UTC", "America/New_York", "Asia/Shanghai", "Europe/London", "Australia/Lord_Howe", "Asia/Kathmandu"}

func c19ZoneCount() int {
	if os.Getenv("VERIF_C19_ZONES") == "2" {
		return 2
	}
	return len(c19Zones)
}

func init() {
	c := eng.Register(&eng.Check{
		ID:          "C19",
		Title:       "Date builtins agree with the proleptic Gregorian calendar and preserve instants",
		Rule:        "date(y,m,d) for every y in the stated year set x m in -14..26 x d in -40..72 with year month day hour minute second weekDay millSecond applied inside the language; addDate over base dates x shift triples; times of day supplied as data; useTimezone over valid and invalid zone names; timeFormat with numeric layouts; now/toDay bracketed by the wall clock; every worker process runs under its own TZ; civil fields and Unix milliseconds are compared with an independent days-from-civil computation; distinct = distinct (civil date, weekday) results",
		TrustedBase: []string{"days-from-civil / civil-from-days arithmetic in checks/c19.go", "Go zone tables for UTC offsets only"},
		Assumptions: []string{"local midnights that do not exist in a zone are skipped and counted; ambiguous ones accept either instant", "the clock functions are only bracketed"},
		Run:         runC19,
		Env: func(shard int) []string {
			return []string{"TZ=" + c19Zones[shard%c19ZoneCount()], "VERIF_ZONE=" + c19Zones[shard%c19ZoneCount()]}
		},
	})
	c19Date = eng.NewKind(c, "date", judgeDate)
	c19Tod = eng.NewKind(c, "timeofday", judgeTod)
	c19Now = eng.NewKind(c, "clock", func(SrcCase) *eng.Fail { return judgeClock() })
	c19Instant = eng.NewKind(c, "instant", judgeInstant)
	c19Reloc = eng.NewKind(c, "relocated", judgeReloc)
	c19Lit = eng.NewKind(c, "literal-arguments", judgeLitDate)
}

func floorDiv(a, b int64) int64 {
	q := a / b
	if (a%b != 0) && ((a < 0) != (b < 0)) {
		q--
	}
	return q
}
func floorMod(a, b int64) int64 { return a - floorDiv(a, b)*b }

// daysFromCivil: days since 1970-01-01 of the proleptic Gregorian date (m in 1..12).
func daysFromCivil(y, m, d int64) int64 {
	if m <= 2 {
		y--
	}
	era := floorDiv(y, 400)
	yoe := y - era*400
	mp := m - 3
	if m <= 2 {
		mp = m + 9
	}
	doy := (153*mp+2)/5 + d - 1
	doe := yoe*365 + yoe/4 - yoe/100 + doy
	return era*146097 + doe - 719468
}

func civilFromDays(z int64) (y, m, d int64) {
	z += 719468
	era := floorDiv(z, 146097)
	doe := z - era*146097
	yoe := (doe - doe/1460 + doe/36524 - doe/146096) / 365
	y = yoe + era*400
	doy := doe - (365*yoe + yoe/4 - yoe/100)
	mp := (5*doy + 2) / 153
	d = doy - (153*mp+2)/5 + 1
	if mp < 10 {
		m = mp + 3
	} else {
		m = mp - 9
	}
	if m <= 2 {
		y++
	}
	return
}

// normDays: day number of (y, m, d) with months and days carried over.
func normDays(y, m, d int64) int64 {
	m0 := m - 1
	y += floorDiv(m0, 12)
	m = floorMod(m0, 12) + 1
	return daysFromCivil(y, m, 1) + d - 1
}

func offsetAt(loc *time.Location, unix int64) int64 {
	_, off := time.Unix(unix, 0).In(loc).Zone()
	return int64(off)
}

// localExists reports whether some instant has the local clock reading `local` seconds
// (days*86400 + seconds of day) in loc.
func localExists(loc *time.Location, local int64) bool {
	for _, probe := range []int64{local - 86400, local, local + 86400} {
		off := offsetAt(loc, probe)
		u := local - off
		if offsetAt(loc, u) == off {
			return true
		}
	}
	return false
}

func workerZone() (*time.Location, string, error) {
	name := os.Getenv("VERIF_ZONE")
	if name == "" {
		name = "UTC"
	}
	loc, err := time.LoadLocation(name)
	return loc, name, err
}

const dateFormula = "$t = date(y,m,d), [year($t), month($t), day($t), hour($t), minute($t), second($t), weekDay($t), millSecond($t)]"
const shiftFormula = "$t = addDate(date(y,m,d), dy, dm, dd), [year($t), month($t), day($t), hour($t), minute($t), second($t), weekDay($t), millSecond($t)]"

func intsOf(v interface{}, n int) ([]int64, bool) {
	a, ok := v.([]interface{})
	if !ok || len(a) != n {
		return nil, false
	}
	out := make([]int64, n)
	for i, e := range a {
		d, ok := decOf(e)
		if !ok || !d.Finite() || !d.Rat().IsInt() || !d.Rat().Num().IsInt64() {
			return nil, false
		}
		out[i] = d.Rat().Num().Int64()
	}
	return out, true
}

// checkFields compares the eight extracted values with local clock reading `local`.
func checkFields(loc *time.Location, what string, f []int64, local int64) *eng.Fail {
	days := floorDiv(local, 86400)
	sod := floorMod(local, 86400)
	y, m, d := civilFromDays(days)
	wd := floorMod(days+4, 7)
	want := []int64{y, m, d, sod / 3600, sod % 3600 / 60, sod % 60, wd}
	names := []string{"year", "month", "day", "hour", "minute", "second", "weekDay"}
	for i := range want {
		if f[i] != want[i] {
			return eng.F("C19/"+names[i], "%s: %s = %d, expected %d (civil %04d-%02d-%02d %02d:%02d:%02d, weekday %d)", what, names[i], f[i], want[i], y, m, d, want[3], want[4], want[5], wd)
		}
	}
	// millSecond: Unix milliseconds of an instant whose local reading is `local`
	ms := f[7]
	if floorMod(ms, 1000) != 0 {
		return eng.F("C19/millSecond", "%s: millSecond = %d is not a whole second", what, ms)
	}
	u := ms / 1000
	if u+offsetAt(loc, u) != local {
		return eng.F("C19/millSecond", "%s: millSecond = %d; that instant reads %d local seconds, expected %d (off by %d s)", what, ms, u+offsetAt(loc, u), local, u+offsetAt(loc, u)-local)
	}
	outcome(fmt.Sprint(y%400, m, d, wd))
	return nil
}

func judgeDate(c DateCase) *eng.Fail {
	loc, name, err := workerZone()
	if err != nil {
		return eng.F("harness/zone", "zone: %v", err)
	}
	if c.Zone != "" && c.Zone != name {
		// replay under another TZ: the case belongs to a different zone
		return eng.F("harness/zone-mismatch", "this case was recorded under TZ=%s; replay it with TZ=%s VERIF_ZONE=%s", c.Zone, c.Zone, c.Zone)
	}
	data := map[string]interface{}{"y": float64(c.Y), "m": float64(c.M), "d": float64(c.D), "dy": float64(c.DY), "dm": float64(c.DM), "dd": float64(c.DD)}
	if (c.Y+c.M+c.D)%5 == 0 {
		// a record that happens to have columns named like the date builtins: a bare name that is a builtin
		// denotes the builtin (C16), so nothing changes
		data["date"], data["day"], data["year"], data["addDate"], data["millSecond"], data["month"] = "2020-01-01", 5.0, nil, "x", 0.0, []interface{}{}
	}
	src := dateFormula
	what := fmt.Sprintf("date(%d,%d,%d) in %s", c.Y, c.M, c.D, name)
	days := normDays(int64(c.Y), int64(c.M), int64(c.D))
	if c.Shift {
		src = shiftFormula
		what = fmt.Sprintf("addDate(date(%d,%d,%d), %d,%d,%d) in %s", c.Y, c.M, c.D, c.DY, c.DM, c.DD, name)
		if !localExists(loc, days*86400) {
			note("nonexistent_local_midnight_skipped", 1)
			return nil
		}
		by, bm, bd := civilFromDays(days)
		days = normDays(by+int64(c.DY), bm+int64(c.DM), bd+int64(c.DD))
	}
	local := days * 86400
	if !localExists(loc, local) {
		note("nonexistent_local_midnight_skipped", 1)
		return nil
	}
	o, perr := evalWith(src, data)
	if perr != nil {
		return eng.F("C19/parse", "%v", perr)
	}
	if o.panicked || o.err != nil {
		return eng.F("C19/eval", "%s: %v %s", what, o.err, o.panicMsg)
	}
	f, ok := intsOf(o.val, 8)
	if !ok {
		return eng.F("C19/eval", "%s: result %s", what, show(o.val))
	}
	return checkFields(loc, what, f, local)
}

var todLayouts = []string{"2006-01-02", "15:04:05", "2006-01-02 15:04:05", "02/01/2006", "20060102150405"}

func judgeTod(c TodCase) *eng.Fail {
	loc, name, err := workerZone()
	if err != nil {
		return eng.F("harness/zone", "zone: %v", err)
	}
	if c.Zone != "" && c.Zone != name {
		return eng.F("harness/zone-mismatch", "this case was recorded under TZ=%s", c.Zone)
	}
	local := daysFromCivil(int64(c.Y), int64(c.Mo), int64(c.D))*86400 + int64(c.H*3600+c.Mi*60+c.S)
	if !localExists(loc, local) {
		note("nonexistent_local_time_skipped", 1)
		return nil
	}
	t := time.Date(c.Y, time.Month(c.Mo), c.D, c.H, c.Mi, c.S, 0, loc)
	if t.Unix()+offsetAt(loc, t.Unix()) != local {
		return eng.F("harness/time-construction", "cannot construct the local time")
	}
	data := map[string]interface{}{"t": t, "z": c.Target}
	what := fmt.Sprintf("%04d-%02d-%02d %02d:%02d:%02d in %s", c.Y, c.Mo, c.D, c.H, c.Mi, c.S, name)
	if c.Target == "" {
		o, perr := evalWith("[year(t), month(t), day(t), hour(t), minute(t), second(t), weekDay(t), millSecond(t)]", data)
		if perr != nil || o.panicked || o.err != nil {
			return eng.F("C19/eval", "%s: %v %v %s", what, perr, o.err, o.panicMsg)
		}
		f, ok := intsOf(o.val, 8)
		if !ok {
			return eng.F("C19/eval", "%s: result %s", what, show(o.val))
		}
		if f[7] != t.Unix()*1000 {
			return eng.F("C19/millSecond", "%s: millSecond = %d, expected %d", what, f[7], t.Unix()*1000)
		}
		if fl := checkFields(loc, what, f, local); fl != nil {
			return fl
		}
		// timeFormat with numeric layouts
		y, mo, d := civilFromDays(floorDiv(local, 86400))
		for _, layout := range todLayouts {
			data["l"] = layout
			o, perr := evalWith("timeFormat(t, l)", data)
			if perr != nil || o.panicked || o.err != nil {
				return eng.F("C19/eval", "timeFormat: %v %v %s", perr, o.err, o.panicMsg)
			}
			var want string
			// the year element is a sign and at least four digits (-0005, 0099, 12345)
			ys := fmt.Sprintf("%04d", y)
			if y < 0 {
				ys = fmt.Sprintf("-%04d", -y)
			}
			switch layout {
			case "2006-01-02":
				want = fmt.Sprintf("%s-%02d-%02d", ys, mo, d)
			case "15:04:05":
				want = fmt.Sprintf("%02d:%02d:%02d", c.H, c.Mi, c.S)
			case "2006-01-02 15:04:05":
				want = fmt.Sprintf("%s-%02d-%02d %02d:%02d:%02d", ys, mo, d, c.H, c.Mi, c.S)
			case "02/01/2006":
				want = fmt.Sprintf("%02d/%02d/%s", d, mo, ys)
			case "20060102150405":
				want = fmt.Sprintf("%s%02d%02d%02d%02d%02d", ys, mo, d, c.H, c.Mi, c.S)
			}
			if o.val != interface{}(want) {
				return eng.F("C19/timeFormat", "timeFormat(%s, %q) = %s, expected %q", what, layout, show(o.val), want)
			}
		}
		return nil
	}
	// useTimezone
	target, terr := time.LoadLocation(c.Target)
	o, perr := evalWith("$u = useTimezone(t, z), [year($u), month($u), day($u), hour($u), minute($u), second($u), weekDay($u), millSecond($u)]", data)
	if perr != nil || o.panicked {
		return eng.F("C19/eval", "%s: %v %s", what, perr, o.panicMsg)
	}
	if terr != nil || c.Target == "" {
		if o.err == nil {
			return eng.F("C19/useTimezone-unknown-zone", "useTimezone(t, %q) must fail for an unknown zone, got %s", c.Target, show(o.val))
		}
		// and again: an unknown zone stays unknown however often it is asked for
		for rep := 0; rep < 2; rep++ {
			o2, _ := evalWith("useTimezone(t, z)", data)
			if o2.panicked || o2.err == nil {
				return eng.F("C19/useTimezone-unknown-zone", "useTimezone(t, %q) asked again (attempt %d) must still fail, got %s %s", c.Target, rep+2, show(o2.val), o2.panicMsg)
			}
		}
		outcome("unknown zone")
		return nil
	}
	if o.err != nil {
		return eng.F("C19/eval", "useTimezone(%s, %q): %v", what, c.Target, o.err)
	}
	f, ok := intsOf(o.val, 8)
	if !ok {
		return eng.F("C19/eval", "useTimezone: result %s", show(o.val))
	}
	if f[7] != t.Unix()*1000 {
		return eng.F("C19/useTimezone-instant", "useTimezone(%s, %q) changed the instant: millSecond %d, before %d", what, c.Target, f[7], t.Unix()*1000)
	}
	tl := t.Unix() + offsetAt(target, t.Unix())
	if fl := checkFields(target, fmt.Sprintf("useTimezone(%s, %q)", what, c.Target), f, tl); fl != nil {
		return fl
	}
	// the same instant rendered in the target zone (and again in its own zone afterwards)
	ty, tmo, td := civilFromDays(floorDiv(tl, 86400))
	tsod := floorMod(tl, 86400)
	oy, omo, od := civilFromDays(floorDiv(local, 86400))
	o2, perr2 := evalWith("[timeFormat(useTimezone(t, z), '2006-01-02 15:04:05'), timeFormat(t, '2006-01-02 15:04:05'), timeFormat(useTimezone(t, z), '15:04')]", data)
	if perr2 != nil || o2.panicked || o2.err != nil {
		return eng.F("C19/eval", "timeFormat(useTimezone(..)): %v %v %s", perr2, o2.err, o2.panicMsg)
	}
	arr, _ := o2.val.([]interface{})
	wantT := fmt.Sprintf("%04d-%02d-%02d %02d:%02d:%02d", ty, tmo, td, tsod/3600, tsod%3600/60, tsod%60)
	wantO := fmt.Sprintf("%04d-%02d-%02d %02d:%02d:%02d", oy, omo, od, c.H, c.Mi, c.S)
	// the result really lives in the target zone: its numeric offset, and civil arithmetic on it
	off := offsetAt(target, t.Unix())
	sign := "+"
	if off < 0 {
		sign, off = "-", -off
	}
	wantOff := fmt.Sprintf("%s%02d%02d", sign, off/3600, off%3600/60)
	o3, perr3 := evalWith("timeFormat(useTimezone(t, z), '-0700')", data)
	if perr3 != nil || o3.panicked || o3.err != nil {
		return eng.F("C19/eval", "timeFormat(.., '-0700'): %v %v %s", perr3, o3.err, o3.panicMsg)
	}
	if o3.val != interface{}(wantOff) {
		return eng.F("C19/useTimezone-zone", "useTimezone(%s, %q) rendered with layout -0700 gives %s, the zone's offset at that instant is %s", what, c.Target, show(o3.val), wantOff)
	}
	for _, dm := range []int{6, -5} {
		shifted := normDays(ty, tmo+int64(dm), td)*86400 + tsod
		if !localExists(target, shifted) {
			continue
		}
		// skip ambiguous local times (two instants): either is acceptable, fields are the same
		data["dm"] = float64(dm)
		o4, perr4 := evalWith("$v = addDate(useTimezone(t, z), 0, dm, 0), [year($v), month($v), day($v), hour($v), minute($v), second($v), weekDay($v), millSecond($v)]", data)
		if perr4 != nil || o4.panicked || o4.err != nil {
			return eng.F("C19/eval", "addDate(useTimezone(..)): %v %v %s", perr4, o4.err, o4.panicMsg)
		}
		f4, ok := intsOf(o4.val, 8)
		if !ok {
			return eng.F("C19/eval", "addDate(useTimezone(..)): result %s", show(o4.val))
		}
		if fl := checkFields(target, fmt.Sprintf("addDate(useTimezone(%s, %q), 0, %d, 0)", what, c.Target, dm), f4, shifted); fl != nil {
			return fl
		}
	}
	if len(arr) != 3 || arr[0] != interface{}(wantT) || arr[1] != interface{}(wantO) || arr[2] != interface{}(wantT[11:16]) {
		return eng.F("C19/timeFormat-zone", "the instant %s rendered in %q and in its own zone gives %s, expected [%q, %q, %q]", what, c.Target, show(o2.val), wantT, wantO, wantT[11:16])
	}
	return nil
}

// InstantCase: an instant (Unix seconds) in the worker's zone, reached through an access path.
type InstantCase struct {
	Zone string `json:"zone"`
	Unix int64  `json:"unix"`
	Via  string `json:"via"`
}

type c19Rec struct {
	T    time.Time
	Name string
}

var c19Instant *eng.Kind[InstantCase]

func judgeInstant(c InstantCase) *eng.Fail {
	loc, name, err := workerZone()
	if err != nil {
		return eng.F("harness/zone", "zone: %v", err)
	}
	if c.Zone != "" && c.Zone != name {
		return eng.F("harness/zone-mismatch", "this case was recorded under TZ=%s", c.Zone)
	}
	t := time.Unix(c.Unix, 0).In(loc)
	data := map[string]interface{}{"t": t, "rec": map[string]interface{}{"t": t}, "st": c19Rec{T: t, Name: "r"}}
	v := c.Via
	what := fmt.Sprintf("instant %d in %s reached as %s", c.Unix, name, v)
	o, perr := evalWith("$u = useTimezone("+v+", 'Asia/Tokyo'), $a = addDate("+v+", 0, 0, 0), [year("+v+"), month("+v+"), day("+v+"), hour("+v+"), minute("+v+"), second("+v+"), weekDay("+v+"), millSecond("+v+"), millSecond($u), millSecond($a), timeFormat("+v+", '2006-01-02 15:04:05')]", data)
	if perr != nil || o.panicked || o.err != nil {
		return eng.F("C19/instant-eval", "%s: %v %v %s", what, perr, o.err, o.panicMsg)
	}
	arr, _ := o.val.([]interface{})
	if len(arr) != 11 {
		return eng.F("C19/instant-eval", "%s: result %s", what, show(o.val))
	}
	f, ok := intsOf(arr[:10], 10)
	if !ok {
		return eng.F("C19/instant-eval", "%s: result %s", what, show(o.val))
	}
	local := c.Unix + offsetAt(loc, c.Unix)
	// addDate rebuilds the time from its civil fields: a local reading that occurs twice may come back as
	// either instant, the reading itself must not change
	if u9 := floorDiv(f[9], 1000); f[9] != c.Unix*1000 && floorMod(f[9], 1000) == 0 && u9+offsetAt(loc, u9) == local {
		note("ambiguous_local_time_other_instant", 1)
		f[9] = c.Unix * 1000
	}
	if f[7] != c.Unix*1000 || f[8] != c.Unix*1000 || f[9] != c.Unix*1000 {
		return eng.F("C19/millSecond", "%s: millSecond, after useTimezone, after addDate(0,0,0) = %d, %d, %d, expected %d", what, f[7], f[8], f[9], c.Unix*1000)
	}
	if fl := checkFields(loc, what, f[:8], local); fl != nil {
		return fl
	}
	y, mo, d := civilFromDays(floorDiv(local, 86400))
	sod := floorMod(local, 86400)
	want := fmt.Sprintf("%04d-%02d-%02d %02d:%02d:%02d", y, mo, d, sod/3600, sod%3600/60, sod%60)
	if arr[10] != interface{}(want) {
		return eng.F("C19/timeFormat", "%s: timeFormat = %s, expected %q", what, show(arr[10]), want)
	}
	return nil
}

// LitDateCase: date(y, m, d) with the arguments written as literals in the formula text (zero-padded,
// with separators, with exponents): a literal is the decimal number written, whatever it looks like.
type LitDateCase struct {
	Zone    string `json:"zone"`
	Y, M, D string
}

var c19Lit *eng.Kind[LitDateCase]

func judgeLitDate(c LitDateCase) *eng.Fail {
	loc, name, err := workerZone()
	if err != nil {
		return eng.F("harness/zone", "zone: %v", err)
	}
	if c.Zone != "" && c.Zone != name {
		return eng.F("harness/zone-mismatch", "this case was recorded under TZ=%s", c.Zone)
	}
	val := func(s string) int64 {
		d, _ := ref.ParseDec(strings.Replace(s, "_", "", -1))
		return ratTrunc(d.Rat()).Int64()
	}
	y, m, d := val(c.Y), val(c.M), val(c.D)
	local := normDays(y, m, d) * 86400
	if !localExists(loc, local) {
		return nil
	}
	src := "$t = date(" + c.Y + ", " + c.M + ", " + c.D + "), [year($t), month($t), day($t), hour($t), minute($t), second($t), weekDay($t), millSecond($t)]"
	o, perr := evalWith(src, map[string]interface{}{})
	if perr != nil || o.panicked || o.err != nil {
		return eng.F("C19/eval", "%s: %v %v %s", src, perr, o.err, o.panicMsg)
	}
	f, ok := intsOf(o.val, 8)
	if !ok {
		return eng.F("C19/eval", "%s: result %s", src, show(o.val))
	}
	return checkFields(loc, fmt.Sprintf("date(%s, %s, %s) in %s", c.Y, c.M, c.D, name), f, local)
}

// RelocCase: the process installs its own local zone (time.Local reassigned) and then builds dates.
type RelocCase struct {
	OffMin  int `json:"off_min"`
	Y, M, D int
}

var c19Reloc *eng.Kind[RelocCase]

func judgeReloc(c RelocCase) *eng.Fail {
	saved := time.Local
	defer func() { time.Local = saved }()
	zone := time.FixedZone("VRF", c.OffMin*60)
	time.Local = zone
	what := fmt.Sprintf("date(%d,%d,%d) with time.Local = fixed zone %+d min", c.Y, c.M, c.D, c.OffMin)
	data := map[string]interface{}{"y": float64(c.Y), "m": float64(c.M), "d": float64(c.D)}
	t0 := time.Now()
	o, perr := evalWith("$t = date(y,m,d), $n = toDay(), [year($t), month($t), day($t), hour($t), minute($t), second($t), weekDay($t), millSecond($t), year($n), month($n), day($n), hour($n), minute($n), second($n), weekDay($n), millSecond($n), timeFormat($t, '-0700'), timeFormat($n, '-0700')]", data)
	t1 := time.Now()
	if perr != nil || o.panicked || o.err != nil {
		return eng.F("C19/eval", "%s: %v %v %s", what, perr, o.err, o.panicMsg)
	}
	arr, _ := o.val.([]interface{})
	if len(arr) != 18 {
		return eng.F("C19/eval", "%s: result %s", what, show(o.val))
	}
	f, ok := intsOf(arr[:16], 16)
	if !ok {
		return eng.F("C19/eval", "%s: result %s", what, show(o.val))
	}
	local := normDays(int64(c.Y), int64(c.M), int64(c.D)) * 86400
	if fl := checkFields(zone, what, f[:8], local); fl != nil {
		fl.Key = "C19/relocated-" + fl.Key[4:]
		return fl
	}
	off := c.OffMin
	sign := "+"
	if off < 0 {
		sign, off = "-", -off
	}
	wantOff := fmt.Sprintf("%s%02d%02d", sign, off/60, off%60)
	if arr[16] != interface{}(wantOff) || arr[17] != interface{}(wantOff) {
		return eng.F("C19/relocated-zone", "%s: date and toDay rendered with layout -0700 give %s and %s, the local zone's offset is %s", what, show(arr[16]), show(arr[17]), wantOff)
	}
	// toDay: local midnight (in the installed zone) of the call's date
	okDay := false
	for _, t := range []time.Time{t0, t1} {
		l := t.Unix() + int64(c.OffMin*60)
		if checkFieldsQuiet(f[8:16], floorDiv(l, 86400)*86400, int64(c.OffMin*60)) {
			okDay = true
		}
	}
	if !okDay {
		return eng.F("C19/relocated-toDay", "%s: toDay() = %v is not midnight of the call's date in the installed local zone", what, f[8:16])
	}
	return nil
}

// checkFieldsQuiet: do the eight extracted values describe local reading `local` at a fixed offset?
func checkFieldsQuiet(f []int64, local, off int64) bool {
	days := floorDiv(local, 86400)
	sod := floorMod(local, 86400)
	y, m, d := civilFromDays(days)
	want := []int64{y, m, d, sod / 3600, sod % 3600 / 60, sod % 60, floorMod(days+4, 7), (local - off) * 1000}
	for i := range want {
		if f[i] != want[i] {
			return false
		}
	}
	return true
}

func judgeClock() *eng.Fail {
	loc, _, err := workerZone()
	if err != nil {
		return eng.F("harness/zone", "zone: %v", err)
	}
	t0 := time.Now()
	o, perr := evalWith("[millSecond(now()), millSecond(toDay()), hour(toDay()), minute(toDay()), second(toDay()), year(toDay()), month(toDay()), day(toDay())]", map[string]interface{}{})
	t1 := time.Now()
	if perr != nil || o.panicked || o.err != nil {
		return eng.F("C19/eval", "now/toDay: %v %v %s", perr, o.err, o.panicMsg)
	}
	f, ok := intsOf(o.val, 8)
	if !ok {
		return eng.F("C19/eval", "now/toDay: result %s", show(o.val))
	}
	if f[0] < t0.UnixMilli() || f[0] > t1.UnixMilli() {
		return eng.F("C19/now", "now() = %d ms lies outside the bracket [%d, %d]", f[0], t0.UnixMilli(), t1.UnixMilli())
	}
	okDay := false
	for _, t := range []time.Time{t0, t1} {
		l := t.Unix() + offsetAt(loc, t.Unix())
		y, m, d := civilFromDays(floorDiv(l, 86400))
		if f[5] == y && f[6] == m && f[7] == d {
			okDay = true
		}
	}
	if !okDay || f[2] != 0 || f[3] != 0 || f[4] != 0 {
		return eng.F("C19/toDay", "toDay() = %04d-%02d-%02d %02d:%02d:%02d is not the local midnight of the call's date", f[5], f[6], f[7], f[2], f[3], f[4])
	}
	if f[1] > t1.UnixMilli() || f[1] < t0.UnixMilli()-2*86400*1000 {
		return eng.F("C19/toDay", "toDay() = %d ms is not within the day before the call", f[1])
	}
	// an instant beyond 2^53 milliseconds is exact inside the formula (only the float64 handed back for a
	// whole formula rounds)
	far := time.UnixMilli(9007199254740993)
	if of, errf := evalWith("[millSecond(t) - 9007199254740000, millSecond(t) % 1000, toString(millSecond(t)), millSecond(t) === 9007199254740993, millSecond(addDate(t, 0, 0, 1)) - millSecond(t)]", map[string]interface{}{"t": far}); errf != nil || of.panicked || of.err != nil {
		return eng.F("C19/eval", "millSecond beyond 2^53: %v %v %s", errf, of.err, of.panicMsg)
	} else if got := show(of.val); got != "[num:993,num:993,str:\"9007199254740993\",bool:true,num:86400000]" {
		return eng.F("C19/millSecond", "with t = UnixMilli(9007199254740993): [millSecond(t) - 9007199254740000, millSecond(t) %% 1000, toString(millSecond(t)), millSecond(t) === 9007199254740993, one day later - t] = %s", got)
	}
	// every call has its own bracket: also on a runner that has read the clock before, in an evaluation
	// that succeeded or in one that failed afterwards
	r := formula.NewRunner()
	for _, first := range []string{"millSecond(now())", "useTimezone(now(), 'No/Such_Zone')", "[toDay(), now(), missing!.k]", "$t = now(), millSecond($t)"} {
		evalOn(r, first) // whatever it yields
		time.Sleep(12 * time.Millisecond)
		b0 := time.Now()
		o2, err2 := evalOn(r, "[millSecond(now()), millSecond(addDate(now(), 0, 0, 0)), millSecond(toDay())]")
		b1 := time.Now()
		if err2 != nil || o2.panicked || o2.err != nil {
			return eng.F("C19/eval", "now() on a runner that evaluated %s before: %v %v %s", first, err2, o2.err, o2.panicMsg)
		}
		g, ok := intsOf(o2.val, 3)
		if !ok || g[0] < b0.UnixMilli() || g[0] > b1.UnixMilli() || g[1] < b0.UnixMilli() || g[1] > b1.UnixMilli() {
			return eng.F("C19/now", "on a runner that evaluated %s 12 ms earlier, now() = %s ms lies outside the bracket [%d, %d] of its own call", first, show(o2.val), b0.UnixMilli(), b1.UnixMilli())
		}
	}
	return nil
}

func runC19(w *eng.W) {
	W = w
	_, zone, err := workerZone()
	if err != nil {
		w.Cap("zone unavailable: " + err.Error())
		return
	}
	nz := c19ZoneCount()
	group := w.Shard % nz
	member := w.Shard / nz
	size := 0
	for s := 0; s < w.N; s++ {
		if s%nz == group {
			size++
		}
	}
	if zone != c19Zones[group] {
		w.Cap("TZ not applied")
		return
	}
	unit := 0
	mine := func() bool {
		u := unit
		unit++
		return u%size == member
	}
	w.Text("zones", fmt.Sprint(c19Zones[:nz]))
	q := w.Quick()
	var years []int
	if q {
		for y := 1600; y < 2000; y += 1 {
			if y%3 == 0 || y%100 == 99 || y%100 == 0 {
				years = append(years, y)
			}
		}
		years = append(years, 1, 2, 3, 1677, 1678, 1679, 2261, 2262, 2263, 9997, 9998, 9999, 1970, 2024, 2038, 2100)
	} else {
		for y := 1; y <= 9999; y++ {
			if y >= 1590 && y <= 2410 || y%25 == 0 || y <= 8 || y >= 9990 {
				years = append(years, y)
			}
		}
	}
	for _, y := range years {
		if !mine() || w.Expired() {
			continue
		}
		for m := -14; m <= 26; m++ {
			for d := -40; d <= 72; d++ {
				w.State(1)
				w.Trans(8)
				w.Trace(1)
				w.Note("leg:date", 1)
				c := DateCase{Zone: zone, Y: y, M: m, D: d}
				w.Sample("date", c)
				c19Date.Do(w, c)
			}
		}
	}
	// addDate
	bases := [][3]int{{2024, 1, 31}, {2024, 2, 29}, {2023, 2, 28}, {2023, 12, 31}, {2000, 3, 1}, {1900, 2, 28}, {1999, 12, 31}, {2024, 3, 10}, {2024, 11, 3}, {2024, 3, 31}, {2024, 10, 27}, {1970, 1, 1}, {1969, 12, 31}, {2038, 1, 19}, {1, 1, 1}, {9999, 12, 31}, {2024, 4, 7}, {2024, 10, 6}, {1986, 1, 1}, {2011, 12, 30}}
	if q {
		bases = bases[:8]
	}
	for _, b := range bases {
		for dy := -2; dy <= 2; dy++ {
			if !mine() {
				continue
			}
			for dm := -14; dm <= 14; dm++ {
				for dd := -40; dd <= 40; dd++ {
					w.State(1)
					w.Trans(8)
					w.Trace(1)
					w.Note("leg:addDate", 1)
					c := DateCase{Zone: zone, Y: b[0], M: b[1], D: b[2], DY: dy, DM: dm, DD: dd, Shift: true}
					w.Sample("addDate", c)
					c19Date.Do(w, c)
				}
			}
		}
	}
	// times of day and zone conversion
	targets := []string{"", "UTC", "Asia/Shanghai", "America/New_York", "Europe/London", "Australia/Lord_Howe", "Asia/Kathmandu", "Pacific/Kiritimati", "America/St_Johns", "Nowhere/City", "utc+8", "Mars", "Asia/"}
	for _, day := range [][3]int{{2024, 7, 15}, {2024, 1, 15}, {1969, 12, 31}, {1970, 1, 1}, {2100, 2, 28}, {1900, 3, 1}} {
		for h := 0; h <= 23; h++ {
			if !mine() {
				continue
			}
			for _, mi := range []int{0, 30, 59} {
				for _, s := range []int{0, 59} {
					for _, tg := range targets {
						w.State(1)
						w.Trans(8)
						w.Trace(1)
						w.Note("leg:timeofday", 1)
						c := TodCase{Zone: zone, Y: day[0], Mo: day[1], D: day[2], H: h, Mi: mi, S: s, Target: tg}
						w.Sample("timeofday", c)
						c19Tod.Do(w, c)
					}
				}
			}
		}
	}
	// years before 1 and beyond 9999 (times supplied as data, rendered in their own zone)
	for _, day := range [][3]int{{-5, 3, 7}, {-999, 12, 31}, {-1000, 1, 1}, {-1, 1, 1}, {0, 2, 29}, {99, 5, 5}, {9999, 12, 31}, {10000, 1, 1}, {12345, 6, 7}, {-12345, 6, 7}} {
		if !mine() {
			continue
		}
		for _, h := range []int{0, 13, 23} {
			w.State(1)
			w.Trans(8)
			w.Trace(1)
			w.Note("leg:timeofday-years", 1)
			c := TodCase{Zone: zone, Y: day[0], Mo: day[1], D: day[2], H: h, Mi: 7, S: 9}
			w.Sample("timeofday-years", c)
			c19Tod.Do(w, c)
		}
	}
	// instants reached through access paths (incl. the zero instant 0001-01-01T00:00:00Z)
	instants := []int64{-62135596800, -62135596799, -62135596801, -62135596800 + 86400, 0, 1, -1, 1 << 31, -(1 << 31), 253402300799, 1710054000, 1730613600, 951782400, -2208988800}
	for _, u := range instants {
		if !mine() {
			continue
		}
		for _, via := range []string{"t", "rec.t", "this.t", "this.rec.t", "st.T", "(t)", "(null ?? t)", "(true ? rec.t : t)", "rec!.t"} {
			w.State(1)
			w.Trans(11)
			w.Trace(1)
			w.Note("leg:instant", 1)
			c := InstantCase{Zone: zone, Unix: u, Via: via}
			w.Sample("instant", c)
			c19Instant.Do(w, c)
		}
	}
	// arguments written as literals in unusual but legal spellings
	for _, y := range []string{"2024", "02024", "002024", "2_024", "2024.0", "2.024e3", "20240e-1", "01970", "0100"} {
		if !mine() {
			continue
		}
		for _, m := range []string{"1", "01", "010", "012", "0010", "1_0", "1e1", "08", "09", "007"} {
			for _, d := range []string{"1", "015", "031", "0017", "08", "2_8", "0.5e1", "010"} {
				w.State(1)
				w.Trans(8)
				w.Trace(1)
				w.Note("leg:literal-arguments", 1)
				c := LitDateCase{Zone: zone, Y: y, M: m, D: d}
				w.Sample("literal-arguments", c)
				c19Lit.Do(w, c)
			}
		}
	}
	// the process installs its own local zone after start-up
	for _, off := range []int{0, 330, -480, 765, -210, 60, 840, -720} {
		if !mine() {
			continue
		}
		for _, ymd := range [][3]int{{2024, 1, 1}, {2024, 2, 29}, {1970, 1, 1}, {1969, 12, 31}, {2023, 13, 32}, {2000, 0, 0}, {1, 1, 1}, {9999, 12, 31}, {2024, -3, -5}, {1900, 2, 29}} {
			w.State(1)
			w.Trans(18)
			w.Trace(1)
			w.Note("leg:relocated", 1)
			c := RelocCase{OffMin: off, Y: ymd[0], M: ymd[1], D: ymd[2]}
			w.Sample("relocated", c)
			c19Reloc.Do(w, c)
		}
	}
	if mine() {
		for i := 0; i < 20; i++ {
			w.State(1)
			w.Trans(1)
			w.Trace(1)
			w.Note("leg:clock", 1)
			c19Now.Do(w, SrcCase{})
		}
	}
}
