package checks

import (
	"fmt"
	"regexp"
	"strconv"
	"strings"
	"unicode"
	"unicode/utf8"

	formula "github.com/aundis/formula"

	"verif/internal/eng"
)

// StrFnCase: one builtin (or law) applied to string / integer arguments.
type c17Role string

type StrFnCase struct {
	Fn string   `json:"fn"`
	S  Bytes    `json:"s"`
	T  Bytes    `json:"t,omitempty"`
	U  Bytes    `json:"u,omitempty"`
	I  int      `json:"i"`
	J  int      `json:"j"`
	L  []string `json:"list,omitempty"`
}

var c17Fn *eng.Kind[StrFnCase]

func init() {
	c := eng.Register(&eng.Check{
		ID:          "C17",
		Title:       "String builtins obey the laws of prefix, suffix, slice and pad",
		Rule:        "S = all strings of up to 4 symbols over {a, b, A, space, a 3-byte character} (781), T = those of up to 2 symbols (31), all integer positions from -2 to len+2: startWith/endWith/contains/find on S x T, left/right on S x in-range positions, mid on S x i x j, lpad/rpad on S x one-byte pads x lengths 0..8 and, for subjects of up to 2 bytes, four pads x every length up to 130 and around 256, 1024 and 4096, replace on S x T x T, trim/lower/upper/len on S and on strings with tabs, line breaks and simply-cased non-ASCII letters, join/includes on all lists of up to 3 elements of T, regexp on 40 patterns x S against RE2 called directly, and the algebraic laws of the statement evaluated inside the language; compared with naive reference loops; distinct = distinct (builtin, result) pairs",
		TrustedBase: []string{"naive reference string functions in checks/c17.go", "Go regexp (RE2) called directly for the regexp builtin"},
		Assumptions: []string{"len is the byte length (the measure under which left+right reassemble s)", "mid(s,i,j) with i>j, out-of-range positions for left/right/pad belong to C03 (no panic) only"},
		Run:         runC17,
	})
	c17Fn = eng.NewKind(c, "fn", judgeStrFn)
	c17Hist = eng.NewKind(c, "one-runner", judgeStrHist)
}

// ---- naive references -------------------------------------------------------

func nHasPrefix(s, t string) bool {
	if len(t) > len(s) {
		return false
	}
	for i := 0; i < len(t); i++ {
		if s[i] != t[i] {
			return false
		}
	}
	return true
}
func nHasSuffix(s, t string) bool {
	if len(t) > len(s) {
		return false
	}
	for i := 0; i < len(t); i++ {
		if s[len(s)-len(t)+i] != t[i] {
			return false
		}
	}
	return true
}
func nIndex(s, t string) int {
	for i := 0; i+len(t) <= len(s); i++ {
		if nHasPrefix(s[i:], t) {
			return i
		}
	}
	return -1
}
func nReplace(s, old, nw string) string {
	if old == "" {
		// the empty string occurs before every character and at the end (judged for ASCII s only)
		out := nw
		for i := 0; i < len(s); i++ {
			out += s[i:i+1] + nw
		}
		return out
	}
	out := ""
	for i := 0; i < len(s); {
		if nHasPrefix(s[i:], old) {
			out += nw
			i += len(old)
		} else {
			out += s[i : i+1]
			i++
		}
	}
	return out
}
func clampInt(i, lo, hi int) int {
	if i < lo {
		return lo
	}
	if i > hi {
		return hi
	}
	return i
}

// nTrim strips Unicode White_Space (Go's unicode.IsSpace, the standard definition) from both ends,
// rune by rune; invalid bytes are not white space.
func nTrim(s string) string {
	a, b := 0, len(s)
	for a < b {
		r, sz := utf8.DecodeRuneInString(s[a:b])
		if r == utf8.RuneError && sz <= 1 || !unicode.IsSpace(r) {
			break
		}
		a += sz
	}
	for b > a {
		r, sz := utf8.DecodeLastRuneInString(s[a:b])
		if r == utf8.RuneError && sz <= 1 || !unicode.IsSpace(r) {
			break
		}
		b -= sz
	}
	return s[a:b]
}

var caseUp = map[rune]rune{'é': 'É', 'α': 'Α', 'β': 'Β', 'д': 'Д', 'ж': 'Ж', 'ü': 'Ü'}
var caseLow = map[rune]rune{'É': 'é', 'Α': 'α', 'Β': 'β', 'Д': 'д', 'Ж': 'ж', 'Ü': 'ü'}

func nCase(s string, upper bool) string {
	var b strings.Builder
	for i := 0; i < len(s); {
		r, sz := utf8.DecodeRuneInString(s[i:])
		if r == utf8.RuneError && sz == 1 {
			b.WriteByte(s[i])
			i++
			continue
		}
		i += sz
		switch {
		case upper && r >= 'a' && r <= 'z':
			r -= 32
		case !upper && r >= 'A' && r <= 'Z':
			r += 32
		case upper:
			if u, ok := caseUp[r]; ok {
				r = u
			}
		default:
			if l, ok := caseLow[r]; ok {
				r = l
			}
		}
		b.WriteRune(r)
	}
	return b.String()
}

// ---- evaluation helpers -----------------------------------------------------

var parseCache = map[string]*formula.SourceCode{}

func cachedParse(src string) (*formula.SourceCode, error) {
	if p, ok := parseCache[src]; ok {
		return p, nil
	}
	buf := []byte(src)
	o := safeParse(buf)
	if o.panicked {
		return nil, fmt.Errorf("parser panicked: %s", o.panicMsg)
	}
	if o.err != nil {
		return nil, o.err
	}
	reuseBuffer(buf)
	parseCache[src] = o.src
	return o.src, nil
}

// evalWith evaluates a (cached) formula against data with a fresh runner.
func evalWith(src string, data map[string]interface{}) (evalOut, error) {
	p, err := cachedParse(src)
	if err != nil {
		return evalOut{}, err
	}
	r := formula.NewRunner()
	r.SetThis(data)
	return safeResolve(r, bg, p.Expression), nil
}

func judgeStrFn(c StrFnCase) *eng.Fail {
	s, t, u := string(c.S), string(c.T), string(c.U)
	data := map[string]interface{}{"s": s, "t": t, "u": u, "i": float64(c.I), "j": float64(c.J)}
	ev := func(src string) (interface{}, *eng.Fail) {
		o, err := evalWith(src, data)
		if err != nil {
			return nil, eng.F("C17/parse", "%s: %v", src, err)
		}
		if o.panicked || o.err != nil {
			return nil, eng.F("C17/eval", "%s with s=%q t=%q u=%q i=%d j=%d: %v %s", src, s, t, u, c.I, c.J, o.err, o.panicMsg)
		}
		return o.val, nil
	}
	fail := func(what string, got interface{}, want interface{}) *eng.Fail {
		return eng.F("C17/"+c.Fn, "%s with s=%q t=%q u=%q i=%d j=%d list=%q: got %s, expected %v", what, s, t, u, c.I, c.J, c.L, show(got), want)
	}
	switch c.Fn {
	case "search":
		v, f := ev("[startWith(s,t), endWith(s,t), contains(s,t), find(s,t), find(s,t) == -1, !contains(s,t)]")
		if f != nil {
			return f
		}
		a := v.([]interface{})
		idx := nIndex(s, t)
		want := []interface{}{nHasPrefix(s, t), nHasSuffix(s, t), idx >= 0, idx, idx == -1, idx < 0}
		names := []string{"startWith", "endWith", "contains", "find", "find == -1", "!contains"}
		for k := range want {
			got := a[k]
			if d, ok := decOf(got); ok && d.Finite() {
				if n, err := strconv.Atoi(d.Plain()); err == nil {
					got = n
				}
			}
			if got != want[k] {
				return eng.F("C17/"+strings.Fields(names[k])[0], "%s(%q, %q) = %s, expected %v", names[k], s, t, show(a[k]), want[k])
			}
		}
		outcome(fmt.Sprint("search", want))
	case "nested":
		// builtins nested inside later arguments of other builtins, evaluated twice by ONE runner (argument
		// lists of an outer and an inner call must not share storage)
		first := ""
		if len(t) > 0 {
			first = t[:1]
		}
		forms := []struct {
			src  string
			want interface{}
		}{
			{"contains(s, lower(t))", nIndex(s, nCase(t, false)) >= 0},
			{"startWith(s, left(s, 0)) && contains(s, lower(t))", nIndex(s, nCase(t, false)) >= 0},
			{"find(s, upper(t))", nIndex(s, nCase(t, true))},
			{"replace(s, lower(t), upper(t))", nil},
			{"endWith(upper(s), upper(t))", nHasSuffix(nCase(s, true), nCase(t, true))},
			{"startWith(lower(s), left(lower(t), len(t)))", nHasPrefix(nCase(s, false), nCase(t, false))},
			{"join([s, lower(t), upper(s)], left(t, 0))", s + nCase(t, false) + nCase(s, true)},
			{"contains(trim(s), trim(t))", nIndex(nTrim(s), nTrim(t)) >= 0},
			{"left(s, len(left(t, 0)))", ""},
			{"len(s) + len(upper(t))", nil},
		}
		_ = first
		r := formula.NewRunner()
		r.SetThis(data)
		for round := 0; round < 2; round++ {
			for _, fm := range forms {
				if fm.want == nil || !isASCII(s) || !isASCII(t) {
					continue
				}
				p, err := cachedParse(fm.src)
				if err != nil {
					return eng.F("C17/parse", "%s: %v", fm.src, err)
				}
				o := safeResolve(r, bg, p.Expression)
				if o.panicked || o.err != nil {
					return eng.F("C17/eval", "%s with s=%q t=%q: %v %s", fm.src, s, t, o.err, o.panicMsg)
				}
				got := o.val
				if n, isInt := fm.want.(int); isInt {
					if f, ok := got.(float64); !ok || f != float64(n) {
						return fail(fm.src+fmt.Sprintf(" (evaluation round %d on one runner)", round+1), got, n)
					}
					continue
				}
				if got != fm.want {
					return fail(fm.src+fmt.Sprintf(" (evaluation round %d on one runner)", round+1), got, fm.want)
				}
			}
		}
		outcome("nested")
	case "computed-count":
		// an integer that reaches a count / position parameter as the result of arithmetic (10 may be held
		// as 1E+1, 1.0E+1, 10.00 ...) counts like the plain literal
		expr, plain := t, u
		src := "[left(s, " + expr + ") === left(s, " + plain + "), right(s, " + expr + ") === right(s, " + plain + "), mid(s, 1, " + expr + ") === mid(s, 1, " + plain + "), mid(s, " + expr + ", 24) === mid(s, " + plain + ", 24), lpad('z', '-', " + expr + ") === lpad('z', '-', " + plain + "), rpad('z', '-', " + expr + ") === rpad('z', '-', " + plain + "), len(left(s, " + expr + ")) === " + plain + ", " + expr + " === " + plain + "]"
		v, f := ev(src)
		if f != nil {
			return f
		}
		a := v.([]interface{})
		for k, name := range []string{"left", "right", "mid (end)", "mid (start)", "lpad", "rpad", "len(left)", "the number itself"} {
			if a[k] != interface{}(true) {
				return fail(name+" with the count written "+expr+" and written "+plain, a[k], true)
			}
		}
		outcome("computed-count " + plain)
	case "leftright":
		// in-range n
		v, f := ev("[left(s,i), right(s,i), left(s,i) + right(s,len(s)-i) == s, startWith(s,left(s,i)), endWith(s,right(s,i)), len(s)]")
		if f != nil {
			return f
		}
		a := v.([]interface{})
		if a[0] != interface{}(s[:c.I]) {
			return fail("left(s,i)", a[0], s[:c.I])
		}
		if a[1] != interface{}(s[len(s)-c.I:]) {
			return fail("right(s,i)", a[1], s[len(s)-c.I:])
		}
		for k, law := range []string{"left(s,n)+right(s,len(s)-n)==s", "startWith(s,left(s,n))", "endWith(s,right(s,n))"} {
			if a[2+k] != interface{}(true) {
				return fail("law "+law, a[2+k], true)
			}
		}
		if d, ok := decOf(a[5]); !ok || d.Plain() != fmt.Sprint(len(s)) {
			if isASCII(s) {
				return fail("len(s)", a[5], len(s))
			}
		}
		outcome("leftright " + s[:c.I])
	case "mid":
		v, f := ev("mid(s,i,j)")
		if f != nil {
			return f
		}
		want := s[clampInt(c.I, 0, len(s)):clampInt(c.J, 0, len(s))]
		if v != interface{}(want) {
			return fail("mid(s,i,j)", v, want)
		}
		outcome("mid " + want)
	case "pad":
		v, f := ev("[lpad(s,t,i), rpad(s,t,i)]")
		if f != nil {
			return f
		}
		a := v.([]interface{})
		var wl, wr string
		if len(s) > c.I {
			wl, wr = s[:c.I], s[:c.I]
		} else {
			wl = strings.Repeat(t, c.I-len(s)) + s
			wr = s + strings.Repeat(t, c.I-len(s))
		}
		if a[0] != interface{}(wl) {
			return fail("lpad(s,t,i)", a[0], wl)
		}
		if a[1] != interface{}(wr) {
			return fail("rpad(s,t,i)", a[1], wr)
		}
		outcome("pad " + wl)
	case "replace":
		v, f := ev("replace(s,t,u)")
		if f != nil {
			return f
		}
		want := nReplace(s, t, u)
		if v != interface{}(want) {
			return fail("replace(s,t,u)", v, want)
		}
		outcome("replace " + want)
	case "unary":
		v, f := ev("[trim(s), lower(s), upper(s), len(s)]")
		if f != nil {
			return f
		}
		a := v.([]interface{})
		if a[0] != interface{}(nTrim(s)) {
			return fail("trim(s)", a[0], nTrim(s))
		}
		if a[1] != interface{}(nCase(s, false)) {
			return fail("lower(s)", a[1], nCase(s, false))
		}
		if a[2] != interface{}(nCase(s, true)) {
			return fail("upper(s)", a[2], nCase(s, true))
		}
		if isASCII(s) {
			if d, ok := decOf(a[3]); !ok || d.Plain() != fmt.Sprint(len(s)) {
				return fail("len(s)", a[3], len(s))
			}
		}
		outcome("unary " + nTrim(s) + nCase(s, true))
	case "list":
		lst := make([]interface{}, len(c.L))
		for k, e := range c.L {
			lst[k] = e
		}
		data["l"] = lst
		data["ls"] = append([]string(nil), c.L...)
		roles := make([]c17Role, len(c.L)) // a list whose elements are of a named string type
		mixed := make([]interface{}, len(c.L))
		for k, e := range c.L {
			roles[k] = c17Role(e)
			if k%2 == 0 {
				mixed[k] = c17Role(e)
			} else {
				mixed[k] = e
			}
		}
		data["lr"], data["lm"] = roles, mixed
		v, f := ev("[join(l,t), includes(l,u), join(ls,t), includes(ls,u)]")
		if f != nil {
			return f
		}
		a := v.([]interface{})
		wj := ""
		inc := false
		for k, e := range c.L {
			if k > 0 {
				wj += t
			}
			wj += e
			if e == u {
				inc = true
			}
		}
		if a[0] != interface{}(wj) || a[2] != interface{}(wj) {
			return fail("join(list,t)", a, wj)
		}
		if a[1] != interface{}(inc) || a[3] != interface{}(inc) {
			return fail("includes(list,u)", a, inc)
		}
		// a list that was searched is still the list that was supplied: joined afterwards (in the same formula
		// and in a later one) it is the same text, and the caller's Go slice holds what it held
		v2, f2 := ev("[includes(ls,u), join(ls,t), includes(l,u), join(l,t), includes(ls,t) || true, join(ls,t)]")
		if f2 != nil {
			return f2
		}
		if a2 := v2.([]interface{}); a2[1] != interface{}(wj) || a2[3] != interface{}(wj) || a2[5] != interface{}(wj) || a2[0] != interface{}(inc) {
			return fail("join(list,t) after includes(list,u)", a2, wj)
		}
		v3, f3 := ev("[join(lr,t), includes(lr,u), join(lm,t), includes(lm,u)]")
		if f3 != nil {
			return f3
		}
		if a3 := v3.([]interface{}); a3[0] != interface{}(wj) || a3[2] != interface{}(wj) || a3[1] != interface{}(inc) || a3[3] != interface{}(inc) {
			return fail("join / includes over a list whose elements are of a named string type", a3, fmt.Sprint(wj, " ", inc))
		}
		if got := data["ls"].([]string); strings.Join(got, "\x00") != strings.Join(c.L, "\x00") || len(got) != len(c.L) {
			return fail("the caller's []string after includes and join", got, c.L)
		}
		outcome(fmt.Sprint("list ", wj, inc))
	case "listlit":
		// the same through an array literal written in the formula
		parts := make([]string, len(c.L))
		for k, e := range c.L {
			parts[k] = "'" + e + "'"
		}
		lit := "[" + strings.Join(parts, ",") + "]"
		v, f := ev("[join(" + lit + ",t), includes(" + lit + ",u)]")
		if f != nil {
			return f
		}
		a := v.([]interface{})
		wj := strings.Join(c.L, t)
		inc := false
		for _, e := range c.L {
			if e == u {
				inc = true
			}
		}
		if a[0] != interface{}(wj) {
			return fail("join([..],t)", a[0], wj)
		}
		if a[1] != interface{}(inc) {
			return fail("includes([..],u)", a[1], inc)
		}
	case "regexp":
		re, err := regexp.Compile(t)
		if err != nil {
			// "regexp agrees with RE2 matching": what RE2 refuses is an error here too (C03 names the
			// invalid regular expression among the reported misuses)
			o, perr := evalWith("regexp(s,t)", data)
			if perr != nil || o.panicked {
				return eng.F("C17/eval", "regexp(s,t) with t=%q: %v %s", t, perr, o.panicMsg)
			}
			if o.err == nil {
				return fail("regexp(s,t) with a pattern RE2 rejects ("+err.Error()+")", o.val, "an error")
			}
			outcome("regexp invalid pattern")
			return nil
		}
		v, f := ev("regexp(s,t)")
		if f != nil {
			return f
		}
		want := re.MatchString(s)
		if v != interface{}(want) {
			return fail("regexp(s,t)", v, want)
		}
		outcome(fmt.Sprint("regexp ", t, want))
	case "maptoarr":
		data["m"] = []map[string]interface{}{{"k": s, "o": 1.0}, {"k": t}, {"o": 2.0}}
		v, f := ev("mapToArr(m,'k')")
		if f != nil {
			return f
		}
		a, ok := v.([]interface{})
		if !ok || len(a) != 3 || a[0] != interface{}(s) || a[1] != interface{}(t) || a[2] != nil {
			return fail("mapToArr(m,'k')", v, []interface{}{s, t, nil})
		}
	default:
		return eng.F("harness/fn", "unknown fn %q", c.Fn)
	}
	return nil
}

func isASCII(s string) bool {
	for i := 0; i < len(s); i++ {
		if s[i] >= 0x80 {
			return false
		}
	}
	return true
}

func allStrings(alpha []string, n int) []string {
	var out []string
	for l := 0; l <= n; l++ {
		seqs(len(alpha), l, func(idx []int) {
			out = append(out, string(joinIdx(alpha, idx, "")))
		})
		if l == 0 {
			out = out[:1]
		}
	}
	return out
}

var c17Patterns = []string{"a", "^a", "a$", "^a*$", "ab", "a|b", "[ab]+", "^[ab]+$", "a.b", "^$", "", " ", "\\s", "^\\S+$", "(a)(b)", "a{2}", "a{2,}", "^.{3}$", "[A-Z]", "(?i)a", "b*a", "^(ab)*$", "中", "^.$", "[^a]", "a?b", "\\bA\\b", "a+b+", "(a|b)(a|b)", "^[^ ]*$", "ba", "aa", "A", "^A", "b$", "^ ", " $", "[ab]{4}", ".*", "a.*b",
	// patterns RE2 rejects, among them some that only an unmatched ')' before an unmatched '(' spoils
	")(", "a)(b", "x)|(y", "a)(?i:b", "(", "a(b", "[a-", "*a", "a)", "a{2", "(?P<n>a", "\\", "a**", "(?z)a", "[[:nope:]]", "\\p{Nope}",
	// the dot and line breaks
	"a.b", "^.$", ".", "a.", "(?s)a.b", "(?m)^b$", "^b$"}

// StrHistCase: one runner answers the same question for every pair of arguments from a small set, one
// after the other (forwards or backwards; arguments from the data or written as literals): every answer
// must be the one a fresh runner gives.
type StrHistCase struct {
	Form string `json:"form"` // with %s and %t
	Rev  bool   `json:"rev"`
	Lit  bool   `json:"lit"`
}

var c17Hist *eng.Kind[StrHistCase]

func judgeStrHist(c StrHistCase) *eng.Fail {
	strs := allStrings([]string{"a", "b", " "}, 3)
	strs = append(strs, ",", "a,b", "[a", "b]", "a  b", "\t", "a\tb", "%v", "a b a")
	var pairs [][2]string
	for _, s := range strs {
		for _, t := range strs {
			pairs = append(pairs, [2]string{s, t})
		}
	}
	if c.Rev {
		for i, j := 0, len(pairs)-1; i < j; i, j = i+1, j-1 {
			pairs[i], pairs[j] = pairs[j], pairs[i]
		}
	}
	r := formula.NewRunner()
	data := map[string]interface{}{}
	r.SetThis(data)
	quote := func(x string) string { return "'" + strings.Replace(x, "\t", "\\t", -1) + "'" }
	var prev [2]string
	for i, pr := range pairs {
		src := strings.Replace(strings.Replace(c.Form, "%s", "s", -1), "%t", "t", -1)
		if c.Lit {
			src = strings.Replace(strings.Replace(c.Form, "%s", quote(pr[0]), -1), "%t", quote(pr[1]), -1)
		}
		fresh, err := evalWith(src, map[string]interface{}{"s": pr[0], "t": pr[1]})
		if err != nil {
			return eng.F("harness/case", "%s: %v", src, err)
		}
		p, err := cachedParse(src)
		if err != nil {
			return eng.F("harness/case", "%s: %v", src, err)
		}
		data["s"], data["t"] = pr[0], pr[1]
		o := safeResolve(r, bg, p.Expression)
		if o.panicked || fresh.panicked {
			return eng.F("C17/panic", "%s: %s%s", src, o.panicMsg, fresh.panicMsg)
		}
		if (o.err == nil) != (fresh.err == nil) || show(o.val) != show(fresh.val) {
			return eng.F("C17/answer-depends-on-history", "%s with s=%q t=%q on a runner that has answered %d such questions before (the last for s=%q t=%q): %s (%v); a fresh runner gives %s (%v)", src, pr[0], pr[1], i, prev[0], prev[1], show(o.val), o.err, show(fresh.val), fresh.err)
		}
		prev = pr
	}
	outcome("one-runner " + c.Form)
	return nil
}

func runC17(w *eng.W) {
	W = w
	for _, form := range []string{"startWith(%s, %t)", "endWith(%s, %t)", "contains(%s, %t)", "find(%s, %t)", "regexp(%s, %t)", "replace(%s, %t, 'x')", "replace('a b', %s, %t)", "join([%s, %t], ' ')", "includes([%s, 'a b'], %t)", "lpad(%s, %t, 5)", "trim(%s) + '|' + trim(%t)", "left(%s, len(%t))", "%s + %t", "[%s] == %t"} {
		for _, rev := range []bool{false, true} {
			for _, lit := range []bool{false, true} {
				if !w.Take() {
					continue
				}
				c := StrHistCase{Form: form, Rev: rev, Lit: lit}
				w.State(2401)
				w.Trans(2401)
				w.Trace(1)
				w.Note("leg:one-runner", 1)
				w.Sample("one-runner", c)
				c17Hist.Do(w, c)
			}
		}
	}
	q := w.Quick()
	sym := []string{"a", "b", "A", " ", "中"}
	S := allStrings(sym, 4)
	T := allStrings(sym, 2)
	if q {
		S = allStrings(sym, 3)
	}
	emit := func(c StrFnCase) {
		w.State(1)
		w.Trans(1)
		w.Trace(1)
		w.Note("leg:"+c.Fn, 1)
		w.Sample(c.Fn, c)
		c17Fn.Do(w, c)
	}
	for _, s := range S {
		if !w.Take() {
			continue
		}
		for _, t := range T {
			emit(StrFnCase{Fn: "search", S: Bytes(s), T: Bytes(t)})
			if t != "" || isASCII(s) {
				for _, u := range T {
					emit(StrFnCase{Fn: "replace", S: Bytes(s), T: Bytes(t), U: Bytes(u)})
				}
			}
			if len(s) <= 6 {
				emit(StrFnCase{Fn: "nested", S: Bytes(s), T: Bytes(t)})
			}
		}
		// also needles longer than two symbols taken from the string itself
		for a := 0; a <= len(s); a++ {
			for b := a; b <= len(s); b++ {
				emit(StrFnCase{Fn: "search", S: Bytes(s), T: Bytes(s[a:b])})
				emit(StrFnCase{Fn: "search", S: Bytes(s), T: Bytes(s[a:b] + "b")})
			}
		}
		for i := 0; i <= len(s); i++ {
			emit(StrFnCase{Fn: "leftright", S: Bytes(s), I: i})
		}
		for i := -2; i <= len(s)+2; i++ {
			for j := i; j <= len(s)+2; j++ {
				emit(StrFnCase{Fn: "mid", S: Bytes(s), I: i, J: j})
			}
		}
		for _, p := range []string{"x", " "} {
			for n := 0; n <= 8; n++ {
				emit(StrFnCase{Fn: "pad", S: Bytes(s), T: Bytes(p), I: n})
			}
		}
		// long fills (a ready-made run of pad characters is a natural shortcut): every length up to 130
		// for the short subjects, the usual pads and one unusual one
		if len(s) <= 2 {
			for _, p := range []string{" ", "0", "x", "-"} {
				for n := 9; n <= 130; n++ {
					emit(StrFnCase{Fn: "pad", S: Bytes(s), T: Bytes(p), I: n})
				}
				for _, n := range []int{255, 256, 257, 1023, 1024, 1025, 4097} {
					emit(StrFnCase{Fn: "pad", S: Bytes(s), T: Bytes(p), I: n})
				}
			}
		}
		emit(StrFnCase{Fn: "unary", S: Bytes(s)})
		for _, wsp := range []string{" ", "\t", "\n", "\r\n", " \t ", "\u200b", "\ufeff", "\u00a0", "\u3000", "\u0085", "\u2028", " \u200b ", "\u1680", "\u180e", "\x1c"} {
			emit(StrFnCase{Fn: "unary", S: Bytes(wsp + s + wsp)})
			emit(StrFnCase{Fn: "unary", S: Bytes(wsp + s)})
			emit(StrFnCase{Fn: "unary", S: Bytes(s + "é" + wsp)})
		}
		for _, p := range c17Patterns {
			emit(StrFnCase{Fn: "regexp", S: Bytes(s), T: Bytes(p)})
			if len(s) <= 2 {
				emit(StrFnCase{Fn: "regexp", S: Bytes("a\n" + s), T: Bytes(p)})
				emit(StrFnCase{Fn: "regexp", S: Bytes(s + "\nb"), T: Bytes(p)})
			}
		}
		// replacement texts that look like templates of other replace functions
		if len(s) <= 3 {
			for _, u := range []string{"$", "$1", "$0", "${1}", "$$", "$a", "\\1", "\\0", "&", "%s", "$&", "\\$1", "$_"} {
				for _, t := range []string{"a", "b", " ", "ab"} {
					emit(StrFnCase{Fn: "replace", S: Bytes(s), T: Bytes(t), U: Bytes(u)})
				}
			}
		}
		emit(StrFnCase{Fn: "maptoarr", S: Bytes(s), T: Bytes("zz")})
	}
	long := "abcdefghijklmnopqrstuvwxyz0123"
	for _, pr := range [][2]string{{"20/2", "10"}, {"100/10", "10"}, {"1e1", "10"}, {"toInt('1e1')", "10"}, {"ceil(9.5)", "10"}, {"len(s)/3", "10"}, {"2e1/2", "10"}, {"1e1 + 0", "10"}, {"5 * 2", "10"}, {"10.00", "10"}, {"1.0e1", "10"},
		{"200/10", "20"}, {"2e1", "20"}, {"0.2e2", "20"}, {"round(19.5)", "20"}, {"floor(20.9)", "20"}, {"1e2/5", "20"}, {"max(3, 2e1)", "20"}, {"3e1 - 1e1", "20"}, {"1e0", "1"}, {"10/10", "1"}, {"toInt(12.9)", "12"}, {"abs(-12)", "12"}} {
		if w.Take() {
			emit(StrFnCase{Fn: "computed-count", S: Bytes(long), T: Bytes(pr[0]), U: Bytes(pr[1])})
		}
	}
	for _, s := range []string{"éÉ", "αΑβ", "дДж", "MiXeD é Α д", "ÜBER"} {
		if w.Take() {
			emit(StrFnCase{Fn: "unary", S: Bytes(s)})
		}
	}
	// lists of up to 3 elements of T
	for l := 0; l <= 3; l++ {
		seqsSharded(w, len(T), l, func(idx []int) {
			lst := make([]string, len(idx))
			noQuote := true
			for i, x := range idx {
				lst[i] = T[x]
			}
			for _, sep := range []string{"", ",", "ab"} {
				for _, u := range []string{"", "a", "ab", " ", "中"} {
					emit(StrFnCase{Fn: "list", L: lst, T: Bytes(sep), U: Bytes(u)})
					if noQuote && l <= 2 {
						emit(StrFnCase{Fn: "listlit", L: lst, T: Bytes(sep), U: Bytes(u)})
					}
				}
			}
		})
	}
}
