package checks

import (
	"strings"

	formula "github.com/aundis/formula"

	"verif/internal/eng"
	"verif/internal/ref"
)

// LitCase: a literal spelling (or a short string over the literal alphabet).
type LitCase struct {
	Lit string `json:"lit"`
}

var c12Lit *eng.Kind[LitCase]

func init() {
	c := eng.Register(&eng.Check{
		ID:          "C12",
		Title:       "Numeric literals denote exactly the decimal number written",
		Rule:        "every string up to n characters over {0 5 . e + - _ a x} that begins with a digit or '.', and long literals (integer / fraction parts of every length 0..40 in three digit patterns, exponents with up to 40 digits of which at most 3 significant, a separator at every single position of shorter literals and of literals with digit groups of 20 to 257 digits; all pairs and triples of 25 short literal formulas (incl. exponents beyond every range, refused) evaluated one after the other by one runner, compared with fresh runners): the reference number automaton of the statement decides reject or the exact decimal value; the implementation must agree on accept/reject, on the tree, and on the evaluated value in the contexts [L], [-L], [f(L)], [x?L:L], [(L,L)], [L,L]; distinct = distinct exact values (or 'reject')",
		TrustedBase: []string{"internal/ref/tok.go number automaton", "internal/ref/dec.go"},
		Assumptions: []string{"exponents of more than 17 significant digits are beyond every decimal implementation's range: for those the check only requires an error or a value that behaves like the number written (sign, side of 1, finite, equal to itself) - never a silently different number"},
		Run:         runC12,
	})
	c12Lit = eng.NewKind(c, "literal", judgeLit)
	c12Huge = eng.NewKind(c, "huge-exponent", judgeHugeExp)
	c12Hist = eng.NewKind(c, "runner-history", judgeHistLit)
}

// refEvalNum evaluates a reference tree made of number literals, prefix +/- and binary + -.
func refEvalNum(n *ref.N) (ref.Dec, bool) {
	switch n.K {
	case "num":
		return ref.ParseDec(n.Val)
	case "paren":
		return refEvalNum(n.Kids[0])
	case "prefix":
		v, ok := refEvalNum(n.Kids[0])
		if !ok {
			return v, false
		}
		switch n.Op {
		case "+":
			return v, true
		case "-":
			v.Neg = !v.Neg
			return v, true
		}
	case "bin":
		a, ok1 := refEvalNum(n.Kids[0])
		b, ok2 := refEvalNum(n.Kids[1])
		if !ok1 || !ok2 {
			return a, false
		}
		switch n.Op {
		case "+":
			return ref.Add(a, b).RoundHE(34), true
		case "-":
			return ref.Sub(a, b).RoundHE(34), true
		}
	}
	return ref.Dec{}, false
}

func judgeLit(c LitCase) *eng.Fail {
	// the literal as the whole input, and as the last token of the input
	// (... and after a member access whose name stands on the line after the dot: the one place where the
	// parser looks ahead, after which the scanner reports malformed literals like anywhere else)
	for _, bare := range []string{c.Lit, "1 + " + c.Lit, "a.\nb + " + c.Lit} {
		brt, bv := ref.Parse([]byte(bare))
		bo := safeParse([]byte(bare))
		if bo.panicked {
			return eng.F("C12/panic", "parser panicked on %s: %s", bare, bo.panicMsg)
		}
		if bv == ref.Reject && bo.err == nil {
			return eng.F("C12/accepts-malformed", "%q (literal at the end of the input) is malformed but was accepted as %s", bare, implTree(bo.src.Expression, nil))
		}
		if bv == ref.Accept {
			if bo.err != nil {
				return eng.F("C12/rejects-wellformed", "%q is well-formed (%s) but rejected: %v", bare, brt, bo.err)
			}
			if it := implTree(bo.src.Expression, nil); !sameTree(brt, it) {
				return eng.F("C12/wrong-tree", "%q: reference tree %s, implementation tree %s", bare, brt, it)
			}
		}
	}
	src := "[" + c.Lit + "]"
	rt, v := ref.Parse([]byte(src))
	o := safeParse([]byte(src))
	if o.panicked {
		return eng.F("C12/panic", "parser panicked on %s: %s", src, o.panicMsg)
	}
	if v == ref.Reject {
		outcome("reject")
		if o.err == nil {
			return eng.F("C12/accepts-malformed", "%s is not a well-formed literal/expression but was accepted as %s", src, implTree(o.src.Expression, nil))
		}
		return nil
	}
	if v != ref.Accept {
		return nil
	}
	if o.err != nil {
		return eng.F("C12/rejects-wellformed", "%s is well-formed (%s) but rejected: %v", src, rt, o.err)
	}
	it := implTree(o.src.Expression, nil)
	if !sameTree(rt, it) {
		return eng.F("C12/wrong-tree", "%s: reference tree %s, implementation tree %s", src, rt, it)
	}
	if len(rt.Kids) != 1 {
		return nil
	}
	want, ok := refEvalNum(rt.Kids[0])
	if !ok {
		return nil // contains names or other operators: value belongs to other properties
	}
	outcome(want.String())
	single := rt.Kids[0].K == "num"
	check := func(expr string, w ref.Dec, idx int, n int) *eng.Fail {
		data := map[string]interface{}{"f": goodFunc, "x": true}
		e, perr := evalSrc(expr, data)
		if perr != nil {
			return eng.F("C12/context-parse", "%s does not parse: %v", expr, perr)
		}
		if e.panicked || e.err != nil {
			return eng.F("C12/eval", "%s: evaluation failed: %v %s", expr, e.err, e.panicMsg)
		}
		arr, ok := e.val.([]interface{})
		if !ok || len(arr) != n {
			return eng.F("C12/eval", "%s: result %s", expr, show(e.val))
		}
		got, ok := decOf(arr[idx])
		if !ok || !got.Finite() || !got.Equal(w) {
			return eng.F("C12/wrong-value", "%s: element %d is %s, the literal denotes exactly %s", expr, idx, show(arr[idx]), w)
		}
		return nil
	}
	if f := check(src, want, 0, 1); f != nil {
		return f
	}
	if adj := want.E + len(want.C.Text(10)) - 1; single && adj > -400 && adj < 400 && want.E > -70000 && want.E < 70000 {
		// the literal as the whole formula: what Resolve hands back is the float64 of that number
		if f := checkFloat(c.Lit, nil, want); f != nil {
			f.Key = "C12/top-level-" + strings.TrimPrefix(f.Key, "C04/")
			return f
		}
	}
	if single {
		// negation is an arithmetic operation: its result is rounded to 34 digits like any other
		neg := want
		neg.Neg = !neg.Neg
		neg = neg.RoundHE(34)
		L := c.Lit
		negOK := true
		for _, ctx := range []struct {
			expr string
			w    ref.Dec
			idx  int
			n    int
		}{
			{"[-" + L + "]", neg, 0, 1},
			{"[f(" + L + ")]", want, 0, 1},
			{"[x?" + L + ":" + L + "]", want, 0, 1},
			{"[(" + L + "," + L + ")]", want, 0, 1},
			{"[" + L + "," + L + "]", want, 1, 2},
			{"[ " + L + " ]", want, 0, 1},
		} {
			if !negOK && strings.HasPrefix(ctx.expr, "[-") {
				continue
			}
			if f := check(ctx.expr, ctx.w, ctx.idx, ctx.n); f != nil {
				return f
			}
		}
	}
	return nil
}

// judgeHugeExp: a literal whose exponent has 18 or more significant digits. No implementation computes
// with such numbers; what must not happen is a silently different number.
func judgeHugeExp(c LitCase) *eng.Fail {
	L := c.Lit
	i := strings.IndexAny(L, "eE")
	if i < 0 {
		return eng.F("harness/case", "no exponent in %q", L)
	}
	zero := strings.Trim(L[:i], "0._") == ""
	negExp := strings.HasPrefix(L[i+1:], "-")
	o, perr := evalSrc("["+L+" > 1, "+L+" < 1, "+L+" > 0, "+L+" === 0, "+L+" === "+L+", finite("+L+") === "+L+", "+L+"]", map[string]interface{}{})
	if perr != nil {
		outcome("rejected at parse time")
		return nil
	}
	if o.panicked {
		return eng.F("C12/panic", "%s: panic: %s", L, o.panicMsg)
	}
	if o.err != nil {
		outcome("evaluation error")
		return nil
	}
	arr, _ := o.val.([]interface{})
	if len(arr) != 7 {
		return eng.F("C12/eval", "%s: %s", L, show(o.val))
	}
	want := []interface{}{!zero && !negExp, zero || negExp, !zero, zero, true, true}
	for k := range want {
		if arr[k] != want[k] {
			return eng.F("C12/silently-different", "%s evaluates to %s without an error, and [L > 1, L < 1, L > 0, L === 0, L === L, finite(L) === L] = %s, the number written gives %v", L, show(arr[6]), show(arr[:6]), want)
		}
	}
	outcome("carried")
	return nil
}

var c12Huge *eng.Kind[LitCase]

// HistLitCase: formulas evaluated one after the other by one runner.
type HistLitCase struct {
	Srcs []string `json:"srcs"`
}

var c12Hist *eng.Kind[HistLitCase]

// formulas whose literals occupy the same places of the text, with different values
var c12HistLits = []string{"7", "9", "100 + 25", "100 + 75", "0.5 * 4", "1e2 + 25", "[7]", "[9]", ".5", "5.", "1_0", "10", "-7", "-9", "07", "7.0", "7e0", "f(7)", "f(9)", "x?7:9", "x?9:7", "1e99999999999999999999", "1.5e3", "25e-1", "7e-99999999999999999999"}

func judgeHistLit(c HistLitCase) *eng.Fail {
	data := map[string]interface{}{"f": goodFunc, "x": true}
	r := formula.NewRunner()
	r.SetThis(data)
	for i, src := range c.Srcs {
		fresh, perr := evalSrc(src, data)
		if perr != nil {
			return eng.F("harness/case", "%q does not parse: %v", src, perr)
		}
		p := safeParse([]byte(src))
		if p.panicked || p.err != nil {
			return eng.F("C12/history-parse", "%q parsed the first time and not the second: %v %s", src, p.err, p.panicMsg)
		}
		o := safeResolve(r, bg, p.src.Expression)
		if o.panicked || fresh.panicked {
			return eng.F("C12/panic", "%q: %s%s", src, o.panicMsg, fresh.panicMsg)
		}
		if (o.err == nil) != (fresh.err == nil) || show(o.val) != show(fresh.val) {
			return eng.F("C12/history-value", "a runner that evaluated %q before gives %s (%v) for %q (step %d); a fresh runner gives %s (%v)", c.Srcs[:i], show(o.val), o.err, src, i+1, show(fresh.val), fresh.err)
		}
		outcome(show(o.val))
	}
	return nil
}

var litAlpha = []string{"0", "5", ".", "e", "+", "-", "_", "a", "x"}

func runC12(w *eng.W) {
	W = w
	q := w.Quick()
	emit := func(leg, lit string) {
		w.State(1)
		w.Trans(1)
		w.Trace(1)
		w.Note("leg:"+leg, 1)
		w.Sample(leg, lit)
		c12Lit.Do(w, LitCase{lit})
	}
	n := 7
	if !q {
		n = 8
	}
	// non-ASCII decimal digits (identifier-part characters, not digits of a literal) glued to literals
	wide := append(append([]string{}, litAlpha...), "\u0662", "\uff11")
	for l := 2; l <= n-2; l++ {
		seqsSharded(w, len(wide), l, func(idx []int) {
			if idx[0] > 2 {
				return
			}
			has := false
			for _, x := range idx {
				if x >= len(litAlpha) {
					has = true
				}
			}
			if has {
				emit("short-nonascii-digits", string(joinIdx(wide, idx, "")))
			}
		})
	}
	for l := 1; l <= n; l++ {
		seqsSharded(w, len(litAlpha), l, func(idx []int) {
			if idx[0] > 2 {
				return // must begin with a digit or '.'
			}
			emit("short", string(joinIdx(litAlpha, idx, "")))
		})
		if w.Expired() {
			w.Cap("short literals stopped at length " + itoa(l))
			break
		}
	}
	// long literals
	pat := func(p, n int) string {
		switch p {
		case 0:
			return strings.Repeat("9", n)
		case 1:
			return strings.Repeat("1234567890", n/10+1)[:n]
		default:
			z := n / 3
			return strings.Repeat("0", z) + strings.Repeat("5", n-z)
		}
	}
	exps := []string{"", "e0", "e7", "E+12", "e-30", "e+005", "e-" + strings.Repeat("0", 37) + "123", "E" + strings.Repeat("0", 39) + "9",
		"e6144", "e6145", "e-6143", "e-6177", "e7000", "E-7000", "e123456789", "e-123456789", "e9999999999999999", "e-9999999999999999"}
	step := 1
	if q {
		step = 3
	}
	for ni := 0; ni <= 40; ni += step {
		for nf := -1; nf <= 40; nf += step {
			if !w.Take() {
				continue
			}
			if ni == 0 && nf <= 0 {
				continue
			}
			for p := 0; p < 3; p++ {
				for _, e := range exps {
					lit := pat(p, ni)
					if nf >= 0 {
						lit += "." + pat((p+1)%3, nf)
					}
					emit("long", lit+e)
				}
			}
		}
	}
	// more than 800 integer digits with a compensating exponent, and long fractions with a positive one
	for _, lit := range []string{"1" + strings.Repeat("0", 1000) + "e-1000", "25" + strings.Repeat("0", 900) + "e-901", "3" + strings.Repeat("0", 2000) + "e-1990", strings.Repeat("9", 850) + "e-849",
		"0." + strings.Repeat("0", 1000) + "1e1001", "1" + strings.Repeat("0", 799) + "e-799", "1" + strings.Repeat("0", 800) + "e-800", "1" + strings.Repeat("0", 801) + "e-801", strings.Repeat("12345", 400) + "e-1995", "7" + strings.Repeat("0", 5000) + "E-5000"} {
		if w.Take() {
			emit("long-compensated", lit)
		}
	}
	// literals of more than 34 digits next to a tie between two float64 values: the float64 handed back
	// for the whole formula is the nearest to the number written (not to a 34-digit rounding of it)
	if w.Take() {
		for _, lit := range []string{"9007199254740993.0000000000000000001", "9007199254740992.9999999999999999999999999", "9007199254740993.00000000000000000000000000000000000000001",
			"1.000000000000000111022302462515654042363166809082031250000001", "1.00000000000000011102230246251565404236316680908203124999999", "1.00000000000000011102230246251565404236316680908203125",
			"4503599627370496.50000000000000000000000000000000001", "4503599627370497.4999999999999999999999999999999999999", "0.500000000000000055511151231257827021181583404541015625000000000000000001",
			"18014398509481985.999999999999999999999999999", "18014398509481986.0000000000000000000000000000001"} {
			emit("float-ties", lit)
		}
	}
	// exponents of 18 to 25 digits around the edges of 64-bit integers
	for _, mant := range []string{"1", "10", "123", "0.01", "0.1", "0", "0.0", "5.", ".5", "9999999999999999999999999999999999999", "1_0"} {
		if !w.Take() {
			continue
		}
		for _, e := range []string{"999999999999999999", "1000000000000000000", "1000000000000000001", "9223372036854775806", "9223372036854775807", "9223372036854775808", "9223372036854775809",
			"18446744073709551615", "18446744073709551616", "4611686018427387904", "99999999999999999999", "1" + strings.Repeat("0", 24), strings.Repeat("0", 30) + "1000000000000000000"} {
			for _, sign := range []string{"", "+", "-"} {
				for _, E := range []string{"e", "E"} {
					w.State(1)
					w.Trans(7)
					w.Trace(1)
					w.Note("leg:huge-exponent", 1)
					lit := mant + E + sign + e
					w.Sample("huge-exponent", lit)
					c12Huge.Do(w, LitCase{lit})
				}
			}
		}
	}
	// separators at every single position
	bases := []string{}
	// (digit groups of 8, 9, 16 and 17 digits: a scanner that takes digits in machine words has its edges there)
	for _, ip := range []string{"", "1", "12", "1234", "00", "10000000", "100000000", "12345678901234567"} {
		for _, fp := range []string{"<none>", "", "5", "05", "1234", "123456789", "12345678901234567"} {
			for _, ep := range []string{"", "e1", "e+12", "E-3", "e123", "e000000012"} {
				if ip == "" && (fp == "<none>" || fp == "") {
					continue
				}
				b := ip
				if fp != "<none>" {
					b += "." + fp
				}
				bases = append(bases, b+ep)
			}
		}
	}
	// long digit groups with a separator (pieces between separators collected in a fixed-size buffer have
	// their edge at a power of two): one separator at every position, and together with a second one
	// right after the first digit
	for _, n := range []int{20, 31, 32, 33, 34, 40, 63, 64, 65, 128, 129, 257} {
		for _, g := range []string{"1" + strings.Repeat("0", n-1), strings.Repeat("1234567890", n/10+1)[:n], strings.Repeat("0", n-3) + "125"} {
			for _, b := range []string{g, "0." + g, g + "." + g, "5e" + strings.Repeat("0", n-1) + "2", g + "e-" + strings.Repeat("0", n-2) + "12"} {
				if !w.Take() {
					continue
				}
				for i := 1; i < len(b); i++ {
					emit("separators-long", b[:i]+"_"+b[i:])
					if i > 2 && b[1] >= '0' && b[1] <= '9' {
						emit("separators-long", b[:1]+"_"+b[1:i]+"_"+b[i:])
					}
				}
			}
		}
	}
	// histories: one runner evaluates several formulas one after the other; what a literal denotes does
	// not depend on what that runner evaluated before (compared with a fresh runner for each)
	hl := c12HistLits
	for i := range hl {
		for j := range hl {
			if !w.Take() {
				continue
			}
			for k := -1; k < len(hl); k++ {
				hc := HistLitCase{Srcs: []string{hl[i], hl[j]}}
				if k >= 0 {
					hc.Srcs = append(hc.Srcs, hl[k])
				}
				w.State(int64(len(hc.Srcs)))
				w.Trans(int64(len(hc.Srcs)))
				w.Trace(1)
				w.Note("leg:runner-history", 1)
				w.Sample("runner-history", hc)
				c12Hist.Do(w, hc)
			}
		}
	}
	for _, b := range bases {
		if !w.Take() {
			continue
		}
		emit("separators", b)
		for i := 0; i <= len(b); i++ {
			emit("separators", b[:i]+"_"+b[i:])
			for j := i; j <= len(b); j++ {
				emit("separators", b[:i]+"_"+b[i:j]+"_"+b[j:])
			}
		}
	}
}
