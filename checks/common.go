// Package checks holds one file per property; each registers itself with the engine.
package checks

import (
	"context"
	"encoding/base64"
	"encoding/json"
	"fmt"
	"runtime/debug"
	"strconv"
	"strings"

	formula "github.com/aundis/formula"
	"github.com/ericlagergren/decimal"

	"verif/internal/ref"
)

// Bytes is a byte string that survives JSON (invalid UTF-8 included) and stays readable.
type Bytes []byte

func (b Bytes) MarshalJSON() ([]byte, error) {
	return json.Marshal(struct {
		B64  string `json:"b64"`
		Text string `json:"text"`
	}{base64.StdEncoding.EncodeToString(b), strconv.Quote(string(b))})
}

func (b *Bytes) UnmarshalJSON(raw []byte) error {
	var v struct {
		B64 string `json:"b64"`
	}
	if err := json.Unmarshal(raw, &v); err != nil {
		return err
	}
	d, err := base64.StdEncoding.DecodeString(v.B64)
	if err != nil {
		return err
	}
	*b = d
	return nil
}

// SrcCase is the commonest case shape: one source text.
type SrcCase struct {
	Src Bytes `json:"src"`
}

// parseOut is the observation of one call of the real parser.
type parseOut struct {
	src      *formula.SourceCode
	err      error
	panicked bool
	panicMsg string
}

func safeParse(text []byte) (o parseOut) {
	defer func() {
		if r := recover(); r != nil {
			o.panicked = true
			o.panicMsg = fmt.Sprintf("%v\n%s", r, shortStack())
		}
	}()
	o.src, o.err = formula.ParseSourceCode(text)
	return
}

func shortStack() string {
	s := string(debug.Stack())
	// keep the frames of the package under test
	var keep []string
	lines := strings.Split(s, "\n")
	for i := 0; i+1 < len(lines); i++ {
		if strings.Contains(lines[i], "aundis/formula") && !strings.Contains(lines[i], "verif/") {
			keep = append(keep, strings.TrimSpace(lines[i])+" @ "+strings.TrimSpace(lines[i+1]))
			if len(keep) >= 6 {
				break
			}
		}
	}
	return strings.Join(keep, "\n")
}

// evalOut is the observation of one evaluation.
type evalOut struct {
	val      interface{}
	err      error
	panicked bool
	panicMsg string
}

func safeResolve(r *formula.Runner, ctx context.Context, e formula.Expression) (o evalOut) {
	defer func() {
		if rec := recover(); rec != nil {
			o.panicked = true
			o.panicMsg = fmt.Sprintf("%v\n%s", rec, shortStack())
		}
	}()
	o.val, o.err = r.Resolve(ctx, e)
	return
}

var bg = context.Background()

// evalSrc parses and evaluates src against data with a fresh runner.
func evalSrc(src string, data map[string]interface{}) (o evalOut, perr error) {
	buf := []byte(src)
	p := safeParse(buf)
	if p.panicked {
		return evalOut{panicked: true, panicMsg: "parse: " + p.panicMsg}, nil
	}
	if p.err != nil {
		return evalOut{}, p.err
	}
	reuseBuffer(buf)
	r := formula.NewRunner()
	if data != nil {
		r.SetThis(data)
	}
	return safeResolve(r, bg, p.src.Expression), nil
}

// reuseBuffer does what a caller does that reads formulas into one buffer: the bytes a tree was parsed
// from are overwritten with the next text. A tree is a value of its own; from here on it must not
// depend on that buffer (C08: nothing parsed in between changes what a tree evaluates to).
func reuseBuffer(buf []byte) {
	const next = "'zz' + 987 * qq.rr - \"\\u0041\" "
	for i := range buf {
		buf[i] = next[i%len(next)]
	}
}

// tokText maps the implementation's token kinds to operator text.
var tokText = map[formula.SyntaxKind]string{
	formula.SK_OpenParen: "(", formula.SK_CloseParen: ")", formula.SK_OpenBracket: "[", formula.SK_CloseBracket: "]",
	formula.SK_Dot: ".", formula.SK_DotDotDot: "...", formula.SK_Comma: ",",
	formula.SK_LessThan: "<", formula.SK_GreaterThan: ">", formula.SK_LessThanEquals: "<=", formula.SK_GreaterThanEquals: ">=",
	formula.SK_EqualsEquals: "==", formula.SK_EqualsEqualsEquals: "===", formula.SK_ExclamationEquals: "!=", formula.SK_ExclamationEqualsEquals: "!==",
	formula.SK_Plus: "+", formula.SK_Minus: "-", formula.SK_Asterisk: "*", formula.SK_Slash: "/", formula.SK_Percent: "%",
	formula.SK_Ampersand: "&", formula.SK_Bar: "|", formula.SK_Caret: "^", formula.SK_AmpersandAmpersand: "&&", formula.SK_BarBar: "||",
	formula.SK_QuestionQuestion: "??", formula.SK_Exclamation: "!", formula.SK_ExclamationDot: "!.", formula.SK_ExclamationExclamation: "!!",
	formula.SK_Tilde: "~", formula.SK_Question: "?", formula.SK_Colon: ":", formula.SK_Equals: "=",
}

var kwText = map[formula.SyntaxKind]string{
	formula.SK_TrueKeyword: "true", formula.SK_FalseKeyword: "false", formula.SK_NullKeyword: "null",
	formula.SK_ThisKeyword: "this", formula.SK_CtxKeyword: "ctx", formula.SK_TypeofKeyword: "typeof",
}

// implTree converts the implementation's tree to the canonical form. problems lists every
// incompleteness met on the way (nil operand, empty name, nil list ...).
func implTree(e formula.Expression, problems *[]string) *ref.N {
	bad := func(format string, a ...interface{}) *ref.N {
		if problems != nil {
			*problems = append(*problems, fmt.Sprintf(format, a...))
		}
		return &ref.N{K: "bad"}
	}
	if e == nil {
		return bad("nil expression")
	}
	opText := func(t *formula.TokenNode, where string) string {
		if t == nil {
			bad("%s: nil operator token", where)
			return "<nil>"
		}
		if s, ok := tokText[t.Token]; ok {
			return s
		}
		bad("%s: operator token kind %d is not an operator", where, int(t.Token))
		return "<tok" + strconv.Itoa(int(t.Token)) + ">"
	}
	switch n := e.(type) {
	case *formula.Identifier:
		if n == nil {
			return bad("nil *Identifier")
		}
		if n.Value == "" {
			bad("identifier with empty name at %d", n.Pos())
		}
		return &ref.N{K: "id", Val: n.Value, Pos: n.Pos(), End: n.End()}
	case *formula.LiteralExpression:
		if n == nil {
			return bad("nil *LiteralExpression")
		}
		switch n.Token {
		case formula.SK_NumberLiteral:
			return &ref.N{K: "num", Val: n.Value, Pos: n.Pos(), End: n.End()}
		case formula.SK_StringLiteral:
			return &ref.N{K: "str", Val: n.Value, Pos: n.Pos(), End: n.End()}
		default:
			if s, ok := kwText[n.Token]; ok && s != "typeof" {
				return &ref.N{K: "lit", Op: s, Pos: n.Pos(), End: n.End()}
			}
			return bad("literal with token kind %d", int(n.Token))
		}
	case *formula.PrefixUnaryExpression:
		if n == nil {
			return bad("nil *PrefixUnaryExpression")
		}
		return &ref.N{K: "prefix", Op: opText(n.Operator, "prefix"), Kids: []*ref.N{implTree(n.Operand, problems)}, Pos: n.Pos(), End: n.End()}
	case *formula.TypeOfExpression:
		if n == nil {
			return bad("nil *TypeOfExpression")
		}
		return &ref.N{K: "typeof", Kids: []*ref.N{implTree(n.Expression, problems)}, Pos: n.Pos(), End: n.End()}
	case *formula.BinaryExpression:
		if n == nil {
			return bad("nil *BinaryExpression")
		}
		return &ref.N{K: "bin", Op: opText(n.Operator, "binary"), Kids: []*ref.N{implTree(n.Left, problems), implTree(n.Right, problems)}, Pos: n.Pos(), End: n.End()}
	case *formula.ConditionalExpression:
		if n == nil {
			return bad("nil *ConditionalExpression")
		}
		if n.QuestionTok == nil || n.ColonTok == nil {
			bad("conditional without ?/: token")
		} else if n.ColonTok.Token != formula.SK_Colon || n.QuestionTok.Token != formula.SK_Question {
			bad("conditional with missing ?/: token (kind %d/%d)", int(n.QuestionTok.Token), int(n.ColonTok.Token))
		}
		return &ref.N{K: "cond", Kids: []*ref.N{implTree(n.Condition, problems), implTree(n.WhenTrue, problems), implTree(n.WhenFalse, problems)}, Pos: n.Pos(), End: n.End()}
	case *formula.ParenthesizedExpression:
		if n == nil {
			return bad("nil *ParenthesizedExpression")
		}
		return &ref.N{K: "paren", Kids: []*ref.N{implTree(n.Expression, problems)}, Pos: n.Pos(), End: n.End()}
	case *formula.ArrayLiteralExpression:
		if n == nil {
			return bad("nil *ArrayLiteralExpression")
		}
		r := &ref.N{K: "arr", Pos: n.Pos(), End: n.End()}
		if n.Elements == nil {
			bad("array literal with nil element list")
		} else {
			for i := 0; i < n.Elements.Len(); i++ {
				r.Kids = append(r.Kids, implTree(n.Elements.At(i), problems))
			}
		}
		return r
	case *formula.SelectorExpression:
		if n == nil {
			return bad("nil *SelectorExpression")
		}
		r := &ref.N{K: "sel", Assert: n.Assert, Kids: []*ref.N{implTree(n.Expression, problems)}, Pos: n.Pos(), End: n.End()}
		if n.Name == nil {
			bad("selector with nil name")
		} else {
			if n.Name.Value == "" {
				bad("selector with empty name at %d", n.Name.Pos())
			}
			r.Op = n.Name.Value
		}
		return r
	case *formula.CallExpression:
		if n == nil {
			return bad("nil *CallExpression")
		}
		r := &ref.N{K: "call", Spread: n.DotDotDotToken != nil, Kids: []*ref.N{implTree(n.Expression, problems)}, Pos: n.Pos(), End: n.End()}
		if n.Arguments == nil {
			bad("call with nil argument list")
		} else {
			for i := 0; i < n.Arguments.Len(); i++ {
				r.Kids = append(r.Kids, implTree(n.Arguments.At(i), problems))
			}
		}
		return r
	}
	return bad("unknown node type %T", e)
}

// sameTree compares canonical trees; numbers by exact value, strings by bytes.
func sameTree(a, b *ref.N) bool {
	if a == nil || b == nil {
		return a == b
	}
	if a.K != b.K || a.Op != b.Op || a.Assert != b.Assert || a.Spread != b.Spread || len(a.Kids) != len(b.Kids) {
		return false
	}
	switch a.K {
	case "num":
		da, oka := ref.ParseDec(a.Val)
		db, okb := ref.ParseDec(b.Val)
		if !oka || !okb {
			return a.Val == b.Val
		}
		if !da.Equal(db) {
			return false
		}
	case "str":
		if !a.ValU && !b.ValU && a.Val != b.Val {
			return false
		}
	case "id":
		if a.Val != b.Val {
			return false
		}
	}
	for i := range a.Kids {
		if !sameTree(a.Kids[i], b.Kids[i]) {
			return false
		}
	}
	return true
}

// ---- alphabets -------------------------------------------------------------

// SigmaFull: one lexeme per scanned token kind plus key variants.
var SigmaFull = append(strings.Fields(`a $x 1 2.5 .5 0x1 's' "t" true false null this ctx typeof ( ) [ ] . ... , < > <= >= == === != !== + - * / % & | ^ && || ?? ! !. !! ~ ? : = #`), "\x00")

// SigmaClass: one representative per grammar class.
var SigmaClass = strings.Fields(`a 1 's' null typeof ( ) [ ] . !. ... , = ? : + * / < == & | ^ && || ?? ! !! ~ #`)

// seqs enumerates all sequences of exactly k symbols over an alphabet of n symbols in
// odometer order, calling f with the index vector (reused between calls).
func seqs(n, k int, f func(idx []int)) {
	idx := make([]int, k)
	for {
		f(idx)
		i := k - 1
		for i >= 0 {
			idx[i]++
			if idx[i] < n {
				break
			}
			idx[i] = 0
			i--
		}
		if i < 0 {
			return
		}
	}
}

func ipow(a, b int) int64 {
	r := int64(1)
	for i := 0; i < b; i++ {
		r *= int64(a)
	}
	return r
}

// decOf converts a value that came out of the implementation into an exact reference decimal.
func decOf(v interface{}) (ref.Dec, bool) {
	switch n := v.(type) {
	case *decimal.Big:
		if n == nil {
			return ref.Dec{}, false
		}
		if n.IsNaN(0) {
			return ref.Dec{NaN: true}, true
		}
		if n.IsInf(0) {
			return ref.Dec{Inf: true, Neg: n.Signbit()}, true
		}
		d, ok := ref.ParseDec(n.String())
		return d, ok
	}
	return ref.Dec{}, false
}

// show renders a value that came out of the implementation without printing addresses.
func show(v interface{}) string {
	switch n := v.(type) {
	case nil:
		return "null"
	case *decimal.Big:
		if n == nil {
			return "nil-number"
		}
		return "num:" + n.String()
	case string:
		return "str:" + strconv.Quote(n)
	case bool:
		return "bool:" + strconv.FormatBool(n)
	case float64:
		return "f64:" + strconv.FormatFloat(n, 'g', -1, 64)
	case []interface{}:
		parts := make([]string, len(n))
		for i, e := range n {
			parts[i] = show(e)
		}
		return "[" + strings.Join(parts, ",") + "]"
	case error:
		return "error:" + n.Error()
	}
	return fmt.Sprintf("go:%T", v)
}
