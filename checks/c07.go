package checks

import (
	"fmt"
	"reflect"
	"sort"
	"strconv"
	"strings"

	formula "github.com/aundis/formula"
	"github.com/ericlagergren/decimal"

	"verif/internal/eng"
	"verif/internal/ref"
)

// ProgCase: a history of programs run on one runner over one initial data configuration.
type ProgCase struct {
	Config int      `json:"config"`
	Progs  []string `json:"programs"`
}

// TargetCase: an assignment to a forbidden target.
type TargetCase struct {
	Config int    `json:"config"`
	Src    string `json:"src"`
	Pure   bool   `json:"pure_rhs"`
}

// MutCase: a builtin / operator applied to a number held in a local and to caller-supplied objects.
type MutCase struct {
	Fn  string `json:"fn"`  // formula text with %s for the operand
	Val string `json:"val"` // decimal text of the operand
}

var c07Mut *eng.Kind[MutCase]

// OrderCase: programs run one after the other on one runner, each with the expected outcome ("error" or
// the value as show prints it): the callee of a call is read before its arguments are evaluated, and
// what stands to the right of a failure is never evaluated.
type OrderCase struct {
	Progs []string `json:"progs"`
	Want  []string `json:"want"`
}

var c07Order *eng.Kind[OrderCase]

func judgeOrder(c OrderCase) *eng.Fail {
	var log []string
	mk := func(tag string) map[string]interface{} {
		return map[string]interface{}{"f": func(xs ...interface{}) (string, error) { log = append(log, tag); return tag, nil }, "tag": tag}
	}
	data := map[string]interface{}{"a": mk("a"), "b": mk("b"), "n": nil, "one": 1.0,
		"rec": func(xs ...interface{}) (float64, error) { log = append(log, "rec"); return float64(len(xs)), nil }}
	r := formula.NewRunner()
	r.SetThis(data)
	for i, src := range c.Progs {
		p := safeParse([]byte(src))
		if p.panicked || p.err != nil {
			return eng.F("C07/parse", "%s: %v %s", src, p.err, p.panicMsg)
		}
		o := safeResolve(r, bg, p.src.Expression)
		if o.panicked {
			return eng.F("C07/panic", "%s: %s", src, o.panicMsg)
		}
		got := "error"
		if o.err == nil {
			got = show(o.val)
		}
		if got != c.Want[i] {
			return eng.F("C07/evaluation-order", "program %d of %q on one runner: %s = %s (%v), expected %s (host calls so far: %v); operands, callee and arguments are evaluated left to right", i+1, c.Progs, src, got, o.err, c.Want[i], log)
		}
	}
	outcome(strings.Join(c.Want, ";"))
	return nil
}
var c07Prog *eng.Kind[ProgCase]
var c07Target *eng.Kind[TargetCase]

func init() {
	c := eng.Register(&eng.Check{
		ID:          "C07",
		Title:       "Locals bind and sequence left to right; caller data is never modified",
		Rule:        "every program up to n AST nodes from E := A | $v = E | E , E | [E, E] | rec(E, E) | c ? E : E | (E) | A + A over locals $a $b, the field x and literals, run on 5 initial data maps (empty, with x, with a pre-set local, none, and one holding a nested map, a slice and a number object); every history of up to 3 programs from a pool on one runner; every forbidden assignment target shape; every operator and builtin applied to a number held in a local or supplied by the caller, directly and through eight operand-preserving forms (selections, sequences, parentheses, identity host function), must leave it unchanged; compared with a store-passing reference evaluator (result, locals afterwards, order of recorded host calls) and with a deep identity+content snapshot of the non-$ part of the caller's map; distinct = distinct (result, store) classes",
		TrustedBase: []string{"store-passing reference evaluator in checks/c07.go", "internal/ref/parse.go"},
		Assumptions: []string{"arithmetic on non-numbers yields an unspecified value that is not compared (taint)", "side effects inside the right-hand side of a forbidden assignment are not judged"},
		Run:         runC07,
	})
	c07Prog = eng.NewKind(c, "programs", judgeProg)
	c07Target = eng.NewKind(c, "targets", judgeTarget)
	c07Mut = eng.NewKind(c, "operand-mutation", judgeMut)
	c07Order = eng.NewKind(c, "evaluation-order", judgeOrder)
}

var c07Fns = []string{"abs(%s)", "ceil(%s)", "floor(%s)", "round(%s)", "roundBank(%s)", "roundCash(%s, 2)", "toInt(%s)", "toFloat(%s)", "toString(%s)", "finite(%s)",
	"sqrt(%s)", "exp(%s)", "ln(%s)", "log(%s)", "max(%s)", "min(%s)", "max(%s, 1)", "min(1, %s)", "max(1, %s, 100)", "-%s", "+%s", "~%s", "!%s", "!!%s",
	"(%s + 1)", "(1 + %s)", "(%s - 1)", "(%s * 2)", "(%s / 3)", "(3 / %s)", "(%s % 2)", "(%s & 3)", "(%s | 1)", "(%s ^ 1)", "(%s == 1)", "(%s === %s)", "(%s < 1)", "(%s >= 1)",
	"(%s ?? 1)", "(%s && 1)", "(%s || 1)", "(%s ? 1 : 2)", "typeof %s", "[%s, %s]", "idf(%s)", "hostf(%s)", "hosti(%s)", "hosts(%s)", "lpad('x', 'y', %s)", "left('abcdef', %s)",
	"date(2024, %s, %s)", "addDate(date(2024,1,1), %s, 0, %s)"}

func decSnap(d *decimal.Big) string {
	return fmt.Sprintf("%s/scale%d/prec%d/mode%d/cond%d", d.String(), d.Scale(), d.Context.Precision, d.Context.RoundingMode, d.Context.Conditions)
}

func judgeMut(c MutCase) *eng.Fail {
	want, ok := ref.ParseDec(c.Val)
	if !ok {
		return eng.F("harness/value", "bad value")
	}
	host := map[string]interface{}{
		"idf":   func(x interface{}) (interface{}, error) { return x, nil },
		"hostf": func(x float64) (float64, error) { return x, nil },
		"hosti": func(x int) (int, error) { return x, nil },
		"hosts": func(x string) (string, error) { return x, nil },
	}
	// (1) a number held in a local
	src := "[$r = " + c.Val + ", " + strings.Replace(c.Fn, "%s", "$r", -1) + ", $r]"
	data := map[string]interface{}{}
	for k, v := range host {
		data[k] = v
	}
	o, perr := evalSrc(src, data)
	if perr != nil {
		return eng.F("C07/parse", "%s: %v", src, perr)
	}
	if o.panicked {
		return eng.F("C07/panic", "%s: %s", src, o.panicMsg)
	}
	if o.err == nil {
		arr, _ := o.val.([]interface{})
		if len(arr) != 3 {
			return eng.F("C07/eval", "%s: %s", src, show(o.val))
		}
		for _, i := range []int{0, 2} {
			d, ok := decOf(arr[i])
			if !ok || !d.Finite() || d.Cmp(want) != 0 {
				return eng.F("C07/operand-mutated", "%s: the local holds %s afterwards (element %d), it was bound to %s", src, show(arr[i]), i, c.Val)
			}
		}
	}
	if v, ok := data["$r"]; ok {
		if d, ok := decOf(v); !ok || !d.Finite() || d.Cmp(want) != 0 {
			return eng.F("C07/operand-mutated", "%s: $r in the data map is %s afterwards, it was bound to %s", src, show(v), c.Val)
		}
	}
	// (2) caller-supplied objects
	num, _ := new(decimal.Big).SetString(c.Val)
	nums := []interface{}{decimal.New(3, 0), decimal.New(1, 0), num}
	strs := []interface{}{"b", "a", "c"}
	rows := []map[string]interface{}{{"k": "r1"}, {"k": num}}
	recm := map[string]interface{}{"price": 1.25, "qty": 2, "f32": float32(0.5), "i64": int64(7), "inner": map[string]interface{}{"z": 0.75}}
	cdata := map[string]interface{}{"d": num, "ns": nums, "ss": strs, "rows": rows, "rec": recm, "fl": 2.5}
	for k, v := range host {
		cdata[k] = v
	}
	snap := func() string {
		var b strings.Builder
		b.WriteString(decSnap(num))
		for _, n := range nums {
			b.WriteString(" " + decSnap(n.(*decimal.Big)))
		}
		fmt.Fprintf(&b, " %v %v %d %d %d", strs, rows[0]["k"], len(nums), len(strs), len(rows))
		fmt.Fprintf(&b, " rec{price:%T(%v) qty:%T(%v) f32:%T(%v) i64:%T(%v) z:%T(%v)} fl:%T(%v) keys:%d", recm["price"], recm["price"], recm["qty"], recm["qty"], recm["f32"], recm["f32"], recm["i64"], recm["i64"],
			recm["inner"].(map[string]interface{})["z"], recm["inner"].(map[string]interface{})["z"], cdata["fl"], cdata["fl"], len(cdata))
		return b.String()
	}
	before := snap()
	for _, f := range []string{strings.Replace(c.Fn, "%s", "d", -1), "max(ns...)", "min(ns...)", "join(ss, ',')", "includes(ss, 'a')", "mapToArr(rows, 'k')", "[ns, ss]", "max(ns...) + min(ns...)",
		"rec.price * rec.qty + rec.f32 + rec.i64", "rec.inner.z + this.fl + fl", "[rec!.price, this!.rec.inner!.z]", strings.Replace(c.Fn, "%s", "rec.price", -1), strings.Replace(c.Fn, "%s", "this.fl", -1)} {
		o, perr := evalSrc(f, cdata)
		if perr != nil {
			return eng.F("C07/parse", "%s: %v", f, perr)
		}
		if o.panicked {
			return eng.F("C07/panic", "%s: %s", f, o.panicMsg)
		}
		if after := snap(); after != before {
			return eng.F("C07/caller-object-mutated", "%s changed a caller-supplied object\n  before: %s\n  after:  %s", f, before, after)
		}
	}
	outcome("mut " + c.Fn)
	return nil
}

// ---- reference values -------------------------------------------------------

type rval struct {
	k     string // num null arr unk obj
	d     ref.Dec
	elems []rval
	tag   string // obj label
}

func (v rval) String() string {
	switch v.k {
	case "num":
		return "n" + v.d.Rat().RatString()
	case "null":
		return "null"
	case "arr":
		p := make([]string, len(v.elems))
		for i, e := range v.elems {
			p[i] = e.String()
		}
		return "[" + strings.Join(p, ",") + "]"
	case "obj":
		return "obj:" + v.tag
	}
	return "?"
}

func (v rval) tainted() bool {
	if v.k == "unk" {
		return true
	}
	for _, e := range v.elems {
		if e.tainted() {
			return true
		}
	}
	return false
}

func truthyR(v rval) bool {
	switch v.k {
	case "num":
		return v.d.Finite() && !v.d.IsZero() || v.d.Inf
	case "null":
		return false
	}
	return true
}

// canonImpl renders an implementation value in the same canonical form.
func canonImpl(v interface{}) string {
	if formula.IsNull(v) {
		return "null"
	}
	switch n := v.(type) {
	case *decimal.Big:
		d, ok := decOf(n)
		if !ok || !d.Finite() {
			return "num?" + n.String()
		}
		return "n" + d.Rat().RatString()
	case float64:
		d, _ := ref.ParseDec(strconv.FormatFloat(n, 'f', -1, 64))
		return "n" + d.Rat().RatString()
	case int:
		return "n" + strconv.Itoa(n)
	case []interface{}:
		p := make([]string, len(n))
		for i, e := range n {
			p[i] = canonImpl(e)
		}
		return "[" + strings.Join(p, ",") + "]"
	case map[string]interface{}:
		return "obj:map"
	}
	return fmt.Sprintf("go:%T", v)
}

func fromGo(v interface{}) rval {
	if formula.IsNull(v) {
		return rval{k: "null"}
	}
	switch n := v.(type) {
	case float64:
		d, _ := ref.ParseDec(strconv.FormatFloat(n, 'f', -1, 64))
		return rval{k: "num", d: d}
	case *decimal.Big:
		d, _ := decOf(n)
		return rval{k: "num", d: d}
	case []interface{}:
		r := rval{k: "arr"}
		for _, e := range n {
			r.elems = append(r.elems, fromGo(e))
		}
		return r
	case map[string]interface{}:
		return rval{k: "obj", tag: "map"}
	}
	return rval{k: "unk"}
}

type rstate struct {
	store map[string]rval // locals ($-names)
	data  map[string]rval // non-local names
	log   []string
}

var errRef = fmt.Errorf("reference: evaluation error")

func (s *rstate) eval(n *ref.N) (rval, error) {
	switch n.K {
	case "num":
		d, _ := ref.ParseDec(n.Val)
		return rval{k: "num", d: d}, nil
	case "lit":
		if n.Op == "null" {
			return rval{k: "null"}, nil
		}
		return rval{k: "unk"}, nil
	case "id":
		if strings.HasPrefix(n.Val, "$") {
			if v, ok := s.store[n.Val]; ok {
				return v, nil
			}
			return rval{k: "null"}, nil
		}
		if v, ok := s.data[n.Val]; ok {
			return v, nil
		}
		return rval{k: "null"}, nil
	case "paren":
		return s.eval(n.Kids[0])
	case "arr":
		r := rval{k: "arr"}
		for _, k := range n.Kids {
			v, err := s.eval(k)
			if err != nil {
				return rval{}, err
			}
			r.elems = append(r.elems, v)
		}
		return r, nil
	case "call":
		// rec(a, b): records its arguments, returns the second
		var args []rval
		for _, k := range n.Kids[1:] {
			v, err := s.eval(k)
			if err != nil {
				return rval{}, err
			}
			args = append(args, v)
		}
		if n.Kids[0].K == "id" && n.Kids[0].Val == "sp" && n.Spread && len(args) == 2 && args[1].k == "arr" {
			// sp(head, xs...): a variadic host function returning all it received
			r := rval{k: "arr", elems: append([]rval{args[0]}, args[1].elems...)}
			s.log = append(s.log, "sp:"+r.String())
			return r, nil
		}
		if n.Kids[0].K == "id" && n.Kids[0].Val == "scr" && !n.Spread && len(args) == 1 && args[0].k == "arr" {
			// scr(xs): a host function that writes to the slice it received (its own copy) and returns the length
			s.log = append(s.log, "scr:"+args[0].String())
			return rval{k: "num", d: ref.FromInt64(int64(len(args[0].elems)))}, nil
		}
		if n.Kids[0].K != "id" || n.Kids[0].Val != "rec" || len(args) != 2 {
			return rval{}, errRef
		}
		s.log = append(s.log, args[0].String()+";"+args[1].String())
		return args[1], nil
	case "typeof":
		// typeof evaluates its operand like any other operator (whatever the operand binds is bound)
		if _, err := s.eval(n.Kids[0]); err != nil {
			return rval{}, err
		}
		return rval{k: "unk"}, nil
	case "sel":
		// member access: the operand is evaluated (once), with whatever it binds; only null operands are
		// modelled further (null for `.`, an error for `!.`), the member itself is not
		v, err := s.eval(n.Kids[0])
		if err != nil {
			return rval{}, err
		}
		switch v.k {
		case "null":
			if n.Assert {
				return rval{}, errRef
			}
			return rval{k: "null"}, nil
		case "obj", "unk":
			return rval{k: "unk"}, nil
		}
		return rval{}, fmt.Errorf("taint: member of a non-map")
	case "cond":
		c, err := s.eval(n.Kids[0])
		if err != nil {
			return rval{}, err
		}
		if c.k == "unk" {
			return rval{}, fmt.Errorf("taint in condition")
		}
		if truthyR(c) {
			return s.eval(n.Kids[1])
		}
		return s.eval(n.Kids[2])
	case "bin":
		switch n.Op {
		case "=":
			t := n.Kids[0]
			if t.K != "id" || !strings.HasPrefix(t.Val, "$") {
				return rval{}, errRef
			}
			v, err := s.eval(n.Kids[1])
			if err != nil {
				return rval{}, err
			}
			s.store[t.Val] = v
			return v, nil
		case ",":
			if _, err := s.eval(n.Kids[0]); err != nil {
				return rval{}, err
			}
			return s.eval(n.Kids[1])
		case "+":
			a, err := s.eval(n.Kids[0])
			if err != nil {
				return rval{}, err
			}
			b, err := s.eval(n.Kids[1])
			if err != nil {
				return rval{}, err
			}
			if a.k == "num" && b.k == "num" && a.d.Finite() && b.d.Finite() {
				return rval{k: "num", d: ref.Add(a.d, b.d).RoundHE(34)}, nil
			}
			return rval{k: "unk"}, nil
		}
	}
	return rval{k: "unk"}, nil
}

// ---- data configurations ----------------------------------------------------

type c07Objs struct {
	nested map[string]interface{}
	slice  []interface{}
	inner  []interface{}
	num    *decimal.Big
}

func c07Config(i int) (map[string]interface{}, *c07Objs) {
	switch i {
	case 0:
		return map[string]interface{}{}, nil
	case 1:
		return map[string]interface{}{"x": 1.0}, nil
	case 2:
		return map[string]interface{}{"x": 1.0, "$a": 5.0}, nil
	case 3:
		return nil, nil
	}
	o := &c07Objs{nested: map[string]interface{}{"n": map[string]interface{}{"deep": 1.0}}, inner: []interface{}{2.0}, num: decimal.New(7, 0)}
	o.slice = []interface{}{1.0, o.inner}
	return map[string]interface{}{"x": o.num, "m": o.nested, "s": o.slice, "$a": o.slice, "y": 0.0}, o
}

// snapshot renders identity and content of everything reachable from the non-$ entries.
func snapshot(m map[string]interface{}) string {
	var b strings.Builder
	keys := make([]string, 0, len(m))
	for k := range m {
		if !strings.HasPrefix(k, "$") {
			keys = append(keys, k)
		}
	}
	sort.Strings(keys)
	var rec func(v interface{})
	rec = func(v interface{}) {
		switch n := v.(type) {
		case map[string]interface{}:
			fmt.Fprintf(&b, "map@%x{", reflect.ValueOf(n).Pointer())
			ks := make([]string, 0, len(n))
			for k := range n {
				ks = append(ks, k)
			}
			sort.Strings(ks)
			for _, k := range ks {
				b.WriteString(k + ":")
				rec(n[k])
				b.WriteString(",")
			}
			b.WriteString("}")
		case []interface{}:
			fmt.Fprintf(&b, "slice@%x/%d[", reflect.ValueOf(n).Pointer(), len(n))
			for _, e := range n {
				rec(e)
				b.WriteString(",")
			}
			b.WriteString("]")
		case *decimal.Big:
			fmt.Fprintf(&b, "dec@%p=%s/%d", n, n.String(), n.Scale())
		default:
			fmt.Fprintf(&b, "%T(%v)", v, v)
		}
	}
	for _, k := range keys {
		b.WriteString(k + "=")
		rec(m[k])
		b.WriteString(";")
	}
	return b.String()
}

func localsOf(m map[string]interface{}) string {
	var keys []string
	for k := range m {
		if strings.HasPrefix(k, "$") {
			keys = append(keys, k)
		}
	}
	sort.Strings(keys)
	var p []string
	for _, k := range keys {
		p = append(p, k+"="+canonImpl(m[k]))
	}
	return strings.Join(p, " ")
}

func refLocals(s map[string]rval) (string, bool) {
	var keys []string
	taint := false
	for k := range s {
		keys = append(keys, k)
	}
	sort.Strings(keys)
	var p []string
	for _, k := range keys {
		if s[k].tainted() {
			taint = true
		}
		p = append(p, k+"="+s[k].String())
	}
	return strings.Join(p, " "), taint
}

func judgeProg(c ProgCase) *eng.Fail {
	data, _ := c07Config(c.Config)
	rs := &rstate{store: map[string]rval{}, data: map[string]rval{}}
	for k, v := range data {
		if strings.HasPrefix(k, "$") {
			rs.store[k] = fromGo(v)
		} else {
			rs.data[k] = fromGo(v)
		}
	}
	var implLog []string
	rec := func(a, b interface{}) (interface{}, error) {
		implLog = append(implLog, canonImpl(a)+";"+canonImpl(b))
		return b, nil
	}
	sp := func(head interface{}, rest ...interface{}) (interface{}, error) {
		all := append([]interface{}{head}, rest...)
		implLog = append(implLog, "sp:"+canonImpl(all))
		return all, nil
	}
	scr := func(xs []interface{}) (interface{}, error) {
		implLog = append(implLog, "scr:"+canonImpl(xs))
		for i := range xs {
			xs[i] = "scribbled"
		}
		return float64(len(xs)), nil
	}
	r := formula.NewRunner()
	if data != nil {
		data["rec"] = rec
		data["sp"] = sp
		data["scr"] = scr
		r.SetThis(data)
	} else {
		r.SetThisValue("rec", rec)
		r.SetThisValue("sp", sp)
		r.SetThisValue("scr", scr)
	}
	rs.data["rec"] = rval{k: "unk"}
	before := ""
	if data != nil {
		before = snapshot(data)
	}
	for pi, prog := range c.Progs {
		rt, v := ref.Parse([]byte(prog))
		if v != ref.Accept {
			return eng.F("harness/program", "program %q is not derivable", prog)
		}
		p, err := cachedParse("[(" + prog + ")]")
		if err != nil {
			return eng.F("C07/parse", "%s: %v", prog, err)
		}
		rs.log = nil
		implLog = nil
		storeBefore, _ := refLocals(rs.store)
		want, rerr := rs.eval(rt)
		if rerr != nil && rerr != errRef {
			note("tainted_condition_skipped", 1)
			return nil
		}
		o := safeResolve(r, bg, p.Expression)
		what := fmt.Sprintf("program %d %q of history %q on config %d", pi, prog, c.Progs, c.Config)
		if o.panicked {
			return eng.F("C07/panic", "%s: %s", what, o.panicMsg)
		}
		if rerr != nil {
			if o.err == nil {
				return eng.F("C07/missing-error", "%s: must be an error, got %s", what, show(o.val))
			}
			// a failed program that had bound nothing before it failed leaves every local as it was, and the
			// history goes on; what a program keeps of the bindings it made before failing is not fixed
			if storeAfter, taint := refLocals(rs.store); taint || storeAfter != storeBefore || len(rs.log) > 0 {
				return nil
			}
			tp, _ := cachedParse("this")
			to := safeResolve(r, bg, tp.Expression)
			cur, _ := to.val.(map[string]interface{})
			if gl := localsOf(cur); gl != storeBefore {
				return eng.F("C07/locals", "%s failed without having bound anything: locals afterwards {%s}, before {%s}", what, gl, storeBefore)
			}
			continue
		}
		if o.err != nil {
			return eng.F("C07/unexpected-error", "%s: %v", what, o.err)
		}
		got := canonImpl(o.val.([]interface{})[0])
		if !want.tainted() && got != want.String() {
			return eng.F("C07/result", "%s: result %s, reference %s", what, got, want.String())
		}
		if strings.Join(implLog, "|") != strings.Join(rs.log, "|") {
			tainted := false
			for _, l := range rs.log {
				if strings.Contains(l, "?") {
					tainted = true
				}
			}
			if !tainted {
				return eng.F("C07/call-order", "%s: host calls %v, reference order %v", what, implLog, rs.log)
			}
		}
		// the map the runner works on
		tp, _ := cachedParse("this")
		to := safeResolve(r, bg, tp.Expression)
		cur, _ := to.val.(map[string]interface{})
		if data != nil && (cur == nil || reflect.ValueOf(cur).Pointer() != reflect.ValueOf(data).Pointer()) {
			return eng.F("C07/map-identity", "%s: the runner no longer works on the caller's map", what)
		}
		wantLocals, taint := refLocals(rs.store)
		if !taint {
			if gl := localsOf(cur); gl != wantLocals {
				return eng.F("C07/locals", "%s: locals afterwards {%s}, reference {%s}", what, gl, wantLocals)
			}
		}
		outcome(want.String() + " / " + wantLocals)
		if data != nil {
			delete(data, "rec")
			delete(data, "sp")
			delete(data, "scr")
			after := snapshot(data)
			data["rec"] = rec
			data["sp"] = sp
			data["scr"] = scr
			if stripRec(before) != stripRec(after) {
				return eng.F("C07/frame", "%s: caller data changed\n  before: %s\n  after:  %s", what, stripRec(before), stripRec(after))
			}
		}
	}
	return nil
}

func stripRec(s string) string {
	// the recording functions are harness-owned; remove their entries from the rendering
	for _, name := range []string{"rec=", "sp=", "scr="} {
		i := strings.Index(s, name)
		if i < 0 || (i > 0 && s[i-1] != ';') && i != 0 {
			continue
		}
		j := strings.Index(s[i:], ";")
		s = s[:i] + s[i+j+1:]
	}
	return s
}

func judgeTarget(c TargetCase) *eng.Fail {
	data, _ := c07Config(c.Config)
	if data == nil {
		data = map[string]interface{}{}
	}
	data["f"] = goodFunc
	before := snapshot(data)
	beforeLocals := localsOf(data)
	o, perr := evalSrc(c.Src, data)
	if perr != nil {
		// a target the grammar already rejects is fine
		return nil
	}
	if o.panicked {
		return eng.F("C07/panic", "%s: %s", c.Src, o.panicMsg)
	}
	if o.err == nil {
		return eng.F("C07/forbidden-target", "%s: assigning to something other than a bare $-name must be an error, got %s", c.Src, show(o.val))
	}
	if after := snapshot(data); after != before {
		return eng.F("C07/frame", "%s: caller data changed by a rejected assignment\n  before: %s\n  after:  %s", c.Src, before, after)
	}
	if c.Pure {
		if l := localsOf(data); l != beforeLocals {
			return eng.F("C07/locals", "%s: locals changed by a rejected assignment: {%s} -> {%s}", c.Src, beforeLocals, l)
		}
	}
	outcome("target-error")
	return nil
}

type c07Gen struct{ memo map[int][]string }

var c07Atoms = []string{"$a", "$b", "x", "1", "2"}
var c07Conds = []string{"x", "0", "1", "$a"}

func (g *c07Gen) gen(n int) []string {
	if r, ok := g.memo[n]; ok {
		return r
	}
	var out []string
	if n == 1 {
		out = append(out, c07Atoms...)
	}
	if n >= 2 {
		for _, e := range g.gen(n - 1) {
			out = append(out, "$a = "+wrap(e), "$b = "+wrap(e), "("+e+")")
			if strings.HasPrefix(e, "$") && strings.Contains(e, " = ") && !strings.Contains(e, ",") {
				out = append(out, "$b = "+e) // unparenthesised chain: = associates to the right
			}
		}
	}
	if n == 3 {
		for _, a := range c07Atoms {
			for _, b := range c07Atoms {
				out = append(out, a+" + "+b)
			}
		}
	}
	if n >= 3 {
		for i := 1; i <= n-2; i++ {
			for _, x := range g.gen(i) {
				for _, y := range g.gen(n - 1 - i) {
					out = append(out, wrap(x)+" , "+wrap(y), "["+x+", "+y+"]", "rec("+x+", "+y+")")
					for _, c := range c07Conds {
						if i+(n-1-i)+2 <= n {
							out = append(out, c+" ? "+wrap(x)+" : "+wrap(y))
						}
					}
				}
			}
		}
	}
	g.memo[n] = out
	return out
}

var c07Pool = []string{"$a", "$a = 1", "$a = $b", "$b = [$a, x]", "$a = 2, $b = $a", "[$a, $b, x]", "rec($a = 3, $a)", "$a ? ($b = 1) : ($b = 2)", "x", "$b = x + 1", "$a = [$a, $a]", "rec($b, $b = 7), $b", "$c = $a, $a = $b, $b = $c", "[$a = 1, $a = 2, $a]", "$a = 1 + 2", "$b = 2 + 2", "[1 + 1, 2 + 2, $a]",
	"$a = 1, sp($a = 5, [$a, 7]...)", "sp($b = 2, [$b, $b = 3]...), $b", "sp($a, [$a = 9, $a]...)", "sp(rec(1, 2), [rec(3, 4), $a]...)",
	"$a = $b = 3", "$a = $b = $a = 1, [$a, $b]", "[$a = $b = 2, $a, $b]", "rec($a = $b = 5, $b), $a", "x ? $a = $b = 7 : 0, $b",
	"nofn(1)", "x(2)", "rec(1)", "[1, nofn(2)]", "x = 1",
	"$a = [], $a", "$b = [], [$b, $a]", "rec($a = [], $a)", "$a = [[]], $a",
	"$a = x ? 1 : 2, $a", "$a = $b = x ? 3 : 4, [$a, $b]", "$a = 0 ? 1 : 2", "$b = $a ? $a : 7, [$a, $b]", "x ? $a = 5 : 0, [$a, $b]", "$a ? 0 : ($b = 8), $b",
	"$a = 1, ($a = $a + 1, m)!.n, $a", "$b = 1, [($b = $b + 1, m)!.n!.deep, $b]", "($a = 1, m).n, $a", "rec($a = 2, m)!.n, $a", "[rec(1, m)!.n, rec(2, 3)]", "$b = 2, ($b = $b + $b, m).n.deep, $b", "($a = 1, $b)!.n, $a",
	"typeof [$a = 7, $a + 1], $a", "typeof ($b = 2), $b", "[typeof [$a = 1], $a]", "typeof [rec(1, $a = 5)], $a", "typeof $a = 3, $a", "typeof [[$b = 4]], [$b]",
	"$a = [1, 2], scr($a), $a", "$b = [$a, 2], [scr($b), $b]", "scr([1, 2]), $a", "$a = [[1], 2], scr($a), scr($a), $a", "scr(s), s", "[scr(s), s, scr(s)]",
	c07Wide1, c07Wide2}

// wide array literals: the first element binds a local that elements in every later quarter read
var c07Wide1 = "[$a = 7" + strings.Repeat(", $a", 47) + "]"
var c07Wide2 = "[rec($b = 2, $b)" + strings.Repeat(", 1", 15) + ", $b" + strings.Repeat(", 2", 15) + ", $b = 9" + strings.Repeat(", $b", 15) + "]"

func runC07(w *eng.W) {
	W = w
	q := w.Quick()
	g := &c07Gen{memo: map[int][]string{}}
	max := 5
	if !q {
		max = 6
	}
	for n := 1; n <= max; n++ {
		for _, src := range g.gen(n) {
			if !w.Take() || w.Expired() {
				continue
			}
			for cfg := 0; cfg < 5; cfg++ {
				w.State(1)
				w.Trans(1)
				w.Trace(1)
				w.Note(fmt.Sprintf("programs_with_%d_nodes", n), 1)
				c := ProgCase{Config: cfg, Progs: []string{src}}
				w.Sample("programs", c)
				c07Prog.Do(w, c)
			}
		}
	}
	// histories
	for l := 2; l <= 3; l++ {
		seqsSharded(w, len(c07Pool), l, func(idx []int) {
			progs := make([]string, len(idx))
			for i, x := range idx {
				progs[i] = c07Pool[x]
			}
			for cfg := 0; cfg < 5; cfg++ {
				w.State(1)
				w.Trans(int64(len(idx)))
				w.Trace(1)
				w.Note("histories", 1)
				c := ProgCase{Config: cfg, Progs: progs}
				w.Sample("histories", c)
				c07Prog.Do(w, c)
			}
		})
	}
	// operators and builtins must not modify their operands
	for _, fn := range c07Fns {
		if !w.Take() {
			continue
		}
		for _, v := range []string{"2.75", "-2.5", "7", "0.001", "2", "12.50", "9007199254740993.5", "5e70", "-1e100", "1.5e-80", "12345678901234567890123e99"} {
			w.State(1)
			w.Trans(1)
			w.Trace(1)
			w.Note("operand_mutation", 1)
			c := MutCase{Fn: fn, Val: v}
			w.Sample("operand-mutation", c)
			c07Mut.Do(w, c)
		}
	}
	// ... also when the operand reaches them through an operator that hands one of its operands on
	// unchanged (a selection, a sequence, parentheses, a binding, a host function that returns its argument)
	for _, pass := range []string{"(%s ?? 0)", "(%s || 0)", "(1 && %s)", "((%s))", "(0, %s)", "(1 ? %s : 0)", "idf(%s)", "(null ?? %s)"} {
		for _, fn := range c07Fns {
			if !w.Take() {
				continue
			}
			for _, v := range []string{"2.75", "-2.5", "7", "12.50", "9007199254740993.5", "12345678901234567890123e99"} {
				w.State(1)
				w.Trans(1)
				w.Trace(1)
				w.Note("operand_mutation_through", 1)
				c := MutCase{Fn: strings.Replace(fn, "%s", pass, -1), Val: v}
				w.Sample("operand-mutation", c)
				c07Mut.Do(w, c)
			}
		}
	}
	// the callee is part of the left-to-right order: it is read before the arguments are evaluated, and
	// arguments right of a failing callee or argument are not evaluated at all
	if w.Take() {
		for _, oc := range []OrderCase{
			{[]string{"$f = abs, $f($f = 0 - 3)"}, []string{"f64:3"}},
			{[]string{"$f = abs, $f(($f = 7, 0 - 3))", "$f"}, []string{"f64:3", "f64:7"}},
			{[]string{"$m = a, $m.f(($m = b, 1))", "$m.tag"}, []string{"str:\"a\"", "str:\"b\""}},
			{[]string{"$m = a, [$m.f(), ($m = b, $m.f()), $m.f()]"}, []string{"[str:\"a\",str:\"b\",str:\"b\"]"}},
			{[]string{"$m = a, $m.f($m = b, $m.tag) + $m.tag"}, []string{"str:\"ab\""}},
			{[]string{"n!.f($z = 1)", "$z"}, []string{"error", "null"}},
			{[]string{"n!.k.f($z = 1, $y = 2)", "[$z, $y]"}, []string{"error", "[null,null]"}},
			{[]string{"rec($z = 1, n!.k, $y = 2)", "[$z, $y]"}, []string{"error", "[num:1,null]"}},
			{[]string{"[$z = 1, one(2), $y = 2]", "[$z, $y]"}, []string{"error", "[num:1,null]"}},
			// (whether a callee that is read without error but is not a function fails before or after its
			// arguments are evaluated is open: the value is read first, the call attempted last)
			{[]string{"$g = rec, $g($g = 5, $g) + $g"}, []string{"f64:7"}},
		} {
			w.State(int64(len(oc.Progs)))
			w.Trans(int64(len(oc.Progs)))
			w.Trace(1)
			w.Note("leg:evaluation-order", 1)
			w.Sample("evaluation-order", oc)
			c07Order.Do(w, oc)
		}
	}
	// forbidden targets
	lhs := []string{"x", "$a.b", "m.k", "($a)", "1", "'s'", "f()", "[$a]", "$a + 1", "this", "true", "-$a", "y", "s", "null", "$a!.b", "typeof $a", "this.x", "a$"}
	rhs := []struct {
		s    string
		pure bool
	}{{"1", true}, {"x", true}, {"[1, 2]", true}, {"($b = 5)", false}}
	for _, l := range lhs {
		if !w.Take() {
			continue
		}
		for _, r := range rhs {
			for cfg := 0; cfg < 5; cfg++ {
				for _, form := range []string{"%s = %s", "[%s = %s]", "1, (%s = %s)", "$z = (%s = %s)", "(%s = %s), 1", "%s = %s, 1", "$z = 1, %s = %s, $z", "[(%s = %s, 2)]"} {
					c := TargetCase{Config: cfg, Src: fmt.Sprintf(form, l, r.s), Pure: r.pure && !strings.Contains(form, "$z = 1")}
					w.State(1)
					w.Trans(1)
					w.Trace(1)
					w.Note("forbidden_targets", 1)
					w.Sample("targets", c)
					c07Target.Do(w, c)
				}
			}
		}
	}
}
