package checks

import (
	"fmt"
	"math"
	"math/big"
	"strconv"
	"strings"

	"verif/internal/eng"
	"verif/internal/ref"
)

// NumFnCase: one decimal argument written as a literal.
type NumFnCase struct {
	X string `json:"x"`
}

// ListCase: max/min over a list of literals.
type ListCase struct {
	Args []string `json:"args"`
}

// BitCase: integer operands of the bit operators.
type BitCase struct {
	A int64 `json:"a"`
	B int64 `json:"b"`
}

// BitFracCase: bit operators on finite non-integers: they act on the integer value (truncated toward zero).
type BitFracCase struct {
	A string `json:"a"`
	B string `json:"b"`
}

var c18BitFrac *eng.Kind[BitFracCase]

func judgeBitFrac(c BitFracCase) *eng.Fail {
	a, b := parseOperand(c.A), parseOperand(c.B)
	ia, ib := ratTrunc(a.Rat()).Int64(), ratTrunc(b.Rat()).Int64()
	src := "[" + c.A + " & " + c.B + ", " + c.A + " | " + c.B + ", " + c.A + " ^ " + c.B + ", ~" + c.A + "]"
	o, err := evalWith(src, map[string]interface{}{})
	if err != nil || o.panicked || o.err != nil {
		return eng.F("C18/eval", "%s: %v %v %s", src, err, o.err, o.panicMsg)
	}
	arr := o.val.([]interface{})
	want := []int64{ia & ib, ia | ib, ia ^ ib, ^ia}
	for k, name := range []string{"&", "|", "^", "~"} {
		d, ok := decOf(arr[k])
		if !ok || !d.Finite() || d.Cmp(ref.FromInt64(want[k])) != 0 {
			return eng.F("C18/bit-fraction", "%s %s %s = %s, expected %d (operands act through their integer values %d and %d)", c.A, name, c.B, show(arr[k]), want[k], ia, ib)
		}
	}
	outcome(fmt.Sprint("frac", want))
	return nil
}

// BitSpellCase: integers inside int64 written as a coefficient times a power of ten, as products or as text.
type BitSpellCase struct {
	A  string `json:"a"`
	B  string `json:"b"`
	VA int64  `json:"va"`
	VB int64  `json:"vb"`
}

var c18BitSpell *eng.Kind[BitSpellCase]

func judgeBitSpell(c BitSpellCase) *eng.Fail {
	src := "[" + c.A + " & " + c.B + ", " + c.A + " | " + c.B + ", " + c.A + " ^ " + c.B + ", ~" + c.A + "]"
	o, err := evalWith(src, map[string]interface{}{})
	if err != nil || o.panicked || o.err != nil {
		return eng.F("C18/eval", "%s: %v %v %s", src, err, o.err, o.panicMsg)
	}
	arr := o.val.([]interface{})
	want := []int64{c.VA & c.VB, c.VA | c.VB, c.VA ^ c.VB, ^c.VA}
	for k, name := range []string{"&", "|", "^", "~"} {
		d, ok := decOf(arr[k])
		if !ok || !d.Finite() || d.Cmp(ref.FromInt64(want[k])) != 0 {
			return eng.F("C18/bit-spelling", "%s %s %s = %s, expected %d (the operands are the integers %d and %d)", c.A, name, c.B, show(arr[k]), want[k], c.VA, c.VB)
		}
	}
	outcome(fmt.Sprint("spell", want))
	return nil
}

// ConvCase: toFloat / finite on non-number inputs.
type ConvCase struct {
	Expr string `json:"expr"`
	Want string `json:"want"` // decimal text, "NaN", or "0"
}

var c18Fn *eng.Kind[NumFnCase]
var c18List *eng.Kind[ListCase]
var c18Bit *eng.Kind[BitCase]
var c18Conv *eng.Kind[ConvCase]

func init() {
	c := eng.Register(&eng.Check{
		ID:          "C18",
		Title:       "Numeric builtins and bit operators compute what their names say",
		Rule:        "X = decimals c*10^e with c in {0..30, 95..105, 995..1005, 15-digit extremes}, e in {-15,-3..3,15}, both signs, plus every .5 tie and quarter around -12..12: abs ceil floor round roundBank toInt toFloat toString finite on all of X against exact rational arithmetic; sqrt exp ln log against a self-checking 320-bit reference evaluated at the exact decimal argument (relative error <= 5e-15) plus the inverse laws; max/min over every list of length 1..6 from 5 values incl. equal values in different spellings; toFloat/finite on numeric and non-numeric strings and non-finite values; & | ^ ~ on all pairs of 24 integers against Go int64 operators; distinct = distinct (function, result) pairs",
		TrustedBase: []string{"math/big (Rat, Float)", "internal/ref/num.go (320-bit exp/ln, self-checked against e, ln 10 and exp(ln x)=x on every run)"},
		Assumptions: []string{"exp is judged for |x| <= 10^6 only", "numeric strings are used only in the unambiguous form [-]digits[.digits][e[+-]digits]"},
		Run:         runC18,
	})
	c18Fn = eng.NewKind(c, "fn", judgeNumFn)
	c18List = eng.NewKind(c, "maxmin", judgeMaxMin)
	c18Bit = eng.NewKind(c, "bits", judgeBits)
	c18Conv = eng.NewKind(c, "conv", judgeConv)
	c18BitFrac = eng.NewKind(c, "bits-fraction", judgeBitFrac)
	c18BitSpell = eng.NewKind(c, "bits-spelled", judgeBitSpell)
}

var half = big.NewRat(1, 2)

func ratFloor(r *big.Rat) *big.Int {
	q := new(big.Int)
	m := new(big.Int)
	q.DivMod(r.Num(), r.Denom(), m) // Euclidean: m >= 0, so q is the floor for positive denominators
	return q
}
func ratCeil(r *big.Rat) *big.Int {
	f := ratFloor(r)
	if new(big.Rat).SetInt(f).Cmp(r) != 0 {
		f.Add(f, big.NewInt(1))
	}
	return f
}
func ratTrunc(r *big.Rat) *big.Int {
	if r.Sign() >= 0 {
		return ratFloor(r)
	}
	return ratCeil(r)
}
func ratRoundHalfEven(r *big.Rat) *big.Int {
	f := ratFloor(r)
	diff := new(big.Rat).Sub(r, new(big.Rat).SetInt(f))
	switch diff.Cmp(half) {
	case 1:
		return f.Add(f, big.NewInt(1))
	case 0:
		if f.Bit(0) == 1 {
			return f.Add(f, big.NewInt(1))
		}
	}
	return f
}

func isInt(d ref.Dec, want *big.Int) bool {
	return d.Finite() && d.Rat().Cmp(new(big.Rat).SetInt(want)) == 0
}

func judgeNumFn(c NumFnCase) *eng.Fail {
	const tol = 5e-15
	x := parseOperand(c.X)
	xr := x.Rat()
	X := c.X
	src := "[abs(" + X + "), ceil(" + X + "), floor(" + X + "), round(" + X + "), roundBank(" + X + "), toInt(" + X + "), toFloat(" + X + "), toFloat(toString(" + X + ")) === " + X + ", finite(" + X + "), toString(" + X + ")]"
	o, err := evalWith(src, map[string]interface{}{})
	if err != nil {
		return eng.F("C18/parse", "%s: %v", src, err)
	}
	if o.panicked || o.err != nil {
		return eng.F("C18/eval", "%s: %v %s", src, o.err, o.panicMsg)
	}
	a := o.val.([]interface{})
	dec := func(i int) (ref.Dec, bool) { return decOf(a[i]) }
	bad := func(fn string, i int, want interface{}) *eng.Fail {
		return eng.F("C18/"+fn, "%s(%s) = %s, expected %v", fn, X, show(a[i]), want)
	}
	long := x.Digits() > 34 // abs, toFloat, toString and finite hand a number of more than 34 digits on in 34: not judged exactly
	if d, ok := dec(0); !long && (!ok || !d.Finite() || d.Rat().Cmp(new(big.Rat).Abs(xr)) != 0) {
		return bad("abs", 0, new(big.Rat).Abs(xr).FloatString(20))
	}
	if d, ok := dec(1); !ok || !isInt(d, ratCeil(xr)) {
		return bad("ceil", 1, ratCeil(xr))
	}
	if d, ok := dec(2); !ok || !isInt(d, ratFloor(xr)) {
		return bad("floor", 2, ratFloor(xr))
	}
	// round: an integer within 1/2 of x
	if d, ok := dec(3); !ok || !d.Finite() || !d.Rat().IsInt() || new(big.Rat).Abs(new(big.Rat).Sub(d.Rat(), xr)).Cmp(half) > 0 {
		return bad("round", 3, "an integer within 1/2 of "+xr.FloatString(6))
	}
	if d, ok := dec(4); !ok || !isInt(d, ratRoundHalfEven(xr)) {
		return bad("roundBank", 4, ratRoundHalfEven(xr))
	}
	if d, ok := dec(5); !ok || !isInt(d, ratTrunc(xr)) {
		return bad("toInt", 5, ratTrunc(xr))
	}
	if long {
		goto transcendental
	}
	if d, ok := dec(6); !ok || !d.Finite() || d.Cmp(x) != 0 {
		return bad("toFloat", 6, x)
	}
	if a[7] != interface{}(true) {
		s, _ := a[9].(string)
		return eng.F("C18/toString", "toFloat(toString(%s)) === %s is %s (toString gives %q)", X, X, show(a[7]), s)
	}
	if s, ok := a[9].(string); ok {
		if d, ok := ref.ParseDec(s); !ok || !d.Finite() || d.Cmp(x) != 0 {
			return eng.F("C18/toString", "toString(%s) = %q does not parse back to the same number", X, s)
		}
	} else {
		return bad("toString", 9, "a string")
	}
	if d, ok := dec(8); !ok || !d.Finite() || d.Cmp(x) != 0 {
		return bad("finite", 8, x)
	}
	// none of these functions changes its argument (a number held in a local is read again afterwards)
	if o2, err2 := evalWith("$x = "+X+", [[abs($x), ceil($x), floor($x), round($x), roundBank($x), toInt($x), toFloat($x), finite($x), toString($x), -$x, ~$x, max($x, $x), min($x)], $x === "+X+", $x]", map[string]interface{}{}); err2 == nil && !o2.panicked && o2.err == nil {
		if a2, _ := o2.val.([]interface{}); len(a2) != 3 || a2[1] != interface{}(true) {
			return eng.F("C18/argument-changed", "after abs ceil floor round roundBank toInt toFloat finite toString - ~ max min on $x = %s the local holds %s", X, show(o2.val.([]interface{})[len(o2.val.([]interface{}))-1]))
		}
	}
transcendental:
	outcome("basic " + ratRoundHalfEven(xr).String())

	// transcendental functions
	tr := func(fn, expr string, want *big.Float) *eng.Fail {
		o, err := evalWith("["+expr+"]", map[string]interface{}{})
		if err != nil || o.panicked || o.err != nil {
			return eng.F("C18/eval", "%s: %v %v %s", expr, err, o.err, o.panicMsg)
		}
		d, ok := decOf(o.val.([]interface{})[0])
		if !ok || !d.Finite() {
			return eng.F("C18/"+fn, "%s = %s, expected about %s", expr, show(o.val.([]interface{})[0]), want.Text('g', 20))
		}
		re := ref.RelErr(d.Float(), want)
		noteMax("relerr_x1e18_"+fn, int64(re*1e18))
		if re > tol {
			return eng.F("C18/"+fn, "%s = %s, the real value is %s (relative error %.3g > 5e-15)", expr, d.Plain(), want.Text('g', 25), re)
		}
		return nil
	}
	if x.Neg == false || x.IsZero() {
		if f := tr("sqrt", "sqrt("+X+")", ref.SqrtF(x)); f != nil {
			return f
		}
		// inverse to squaring (exact when x*x has at most 16 digits)
		if x.Digits() <= 8 {
			o, err := evalWith("[sqrt("+X+" * "+X+")]", map[string]interface{}{})
			if err == nil && !o.panicked && o.err == nil {
				if d, ok := decOf(o.val.([]interface{})[0]); !ok || !d.Finite() || d.Cmp(x) != 0 {
					return eng.F("C18/sqrt", "sqrt(%s * %s) = %s, expected %s", X, X, show(o.val.([]interface{})[0]), x.Plain())
				}
			}
		}
	}
	if !x.Neg && !x.IsZero() {
		if f := tr("ln", "ln("+X+")", ref.LnF(x)); f != nil {
			return f
		}
		if f := tr("log", "log("+X+")", ref.Log10F(x)); f != nil {
			return f
		}
		if f := tr("exp-ln", "exp(ln("+X+"))", x.Float()); f != nil {
			// the composition doubles the error: allow it when within 1e-13
			o, _ := evalWith("[exp(ln("+X+"))]", map[string]interface{}{})
			d, ok := decOf(o.val.([]interface{})[0])
			lnx, _ := ref.LnF(x).Float64()
			scale := 1.0
			if lnx > 1 || lnx < -1 {
				scale = lnx
				if scale < 0 {
					scale = -scale
				}
			}
			if !ok || !d.Finite() || ref.RelErr(d.Float(), x.Float()) > 2e-15*(scale+2) {
				return f
			}
		}
	}
	absx := x
	absx.Neg = false
	lim, _ := ref.ParseDec("1000000")
	if absx.Cmp(lim) <= 0 {
		if f := tr("exp", "exp("+X+")", ref.ExpF(x.Float())); f != nil {
			return f
		}
	}
	return nil
}

func judgeMaxMin(c ListCase) *eng.Fail {
	args := strings.Join(c.Args, ", ")
	o, err := evalWith("[max("+args+"), min("+args+")]", map[string]interface{}{})
	if err != nil || o.panicked || o.err != nil {
		return eng.F("C18/eval", "max/min(%s): %v %v %s", args, err, o.err, o.panicMsg)
	}
	a := o.val.([]interface{})
	vals := make([]ref.Dec, len(c.Args))
	for i, s := range c.Args {
		switch s {
		case "(0 * 1e100)", "(1e-100 - 1e-100)", "(0 * -1e-90)":
			vals[i] = ref.FromInt64(0) // zeros computed with a large exponent
		default:
			vals[i] = parseOperand(s)
		}
	}
	for k, fn := range []string{"max", "min"} {
		d, ok := decOf(a[k])
		if !ok || !d.Finite() {
			return eng.F("C18/"+fn, "%s(%s) = %s", fn, args, show(a[k]))
		}
		isArg := false
		for _, v := range vals {
			cmp := d.Cmp(v)
			if cmp == 0 {
				isArg = true
			}
			if fn == "max" && cmp < 0 || fn == "min" && cmp > 0 {
				return eng.F("C18/"+fn, "%s(%s) = %s does not bound the argument %s", fn, args, d.Plain(), v.Plain())
			}
		}
		if !isArg {
			return eng.F("C18/"+fn, "%s(%s) = %s is not one of the arguments", fn, args, d.Plain())
		}
		outcome(fn + d.Plain())
	}
	return nil
}

func lit64(v int64) string {
	if v < 0 {
		return "(" + strconv.FormatInt(v, 10) + ")"
	}
	return strconv.FormatInt(v, 10)
}

func judgeBits(c BitCase) *eng.Fail {
	A, B := lit64(c.A), lit64(c.B)
	src := "[" + A + " & " + B + ", " + A + " | " + B + ", " + A + " ^ " + B + ", ~" + A + "]"
	o, err := evalWith(src, map[string]interface{}{})
	if err != nil || o.panicked || o.err != nil {
		return eng.F("C18/eval", "%s: %v %v %s", src, err, o.err, o.panicMsg)
	}
	a := o.val.([]interface{})
	want := []int64{c.A & c.B, c.A | c.B, c.A ^ c.B, ^c.A}
	names := []string{"&", "|", "^", "~"}
	for k := range want {
		d, ok := decOf(a[k])
		if !ok || !d.Finite() || d.Cmp(ref.FromInt64(want[k])) != 0 {
			if k == 3 {
				return eng.F("C18/bit-not", "~%d = %s, expected %d", c.A, show(a[k]), want[k])
			}
			return eng.F("C18/bit-"+map[string]string{"&": "and", "|": "or", "^": "xor"}[names[k]], "%d %s %d = %s, expected %d", c.A, names[k], c.B, show(a[k]), want[k])
		}
	}
	outcome(fmt.Sprint(want))
	return nil
}

func judgeConv(c ConvCase) *eng.Fail {
	// (Go integers of every built-in type in the data: numbers for every builtin and operator alike)
	o, err := evalWith("["+c.Expr+"]", map[string]interface{}{"i16": int16(7), "u8": uint8(200), "u64": uint64(1) << 63, "i8": int8(-3), "u": uint(12), "u16": uint16(65535), "u32": uint32(1) << 31, "up": uintptr(9)})
	if err != nil || o.panicked || o.err != nil {
		return eng.F("C18/eval", "%s: %v %v %s", c.Expr, err, o.err, o.panicMsg)
	}
	got := o.val.([]interface{})[0]
	d, ok := decOf(got)
	if !ok {
		return eng.F("C18/conv", "%s = %s, expected the number %s", c.Expr, show(got), c.Want)
	}
	outcome(c.Want)
	if c.Want == "NaN" {
		if !d.NaN {
			return eng.F("C18/conv", "%s = %s, expected NaN", c.Expr, show(got))
		}
		return nil
	}
	w, _ := ref.ParseDec(c.Want)
	if !d.Finite() || d.Cmp(w) != 0 {
		return eng.F("C18/conv", "%s = %s, expected %s", c.Expr, show(got), c.Want)
	}
	return nil
}

func c18Grid(quick bool) []string {
	var cs []int64
	for i := int64(0); i <= 30; i++ {
		cs = append(cs, i)
	}
	for i := int64(95); i <= 105; i++ {
		cs = append(cs, i)
	}
	for i := int64(995); i <= 1005; i++ {
		cs = append(cs, i)
	}
	if !quick {
		for i := int64(31); i <= 1100; i++ {
			cs = append(cs, i)
		}
		for _, i := range []int64{9999, 10001, 99999, 100001, 999999, 1000001, 12345678, 99999999, 100000001, 9999999999, 314159265358979, 271828182845904, 141421356237310} {
			cs = append(cs, i)
		}
	}
	cs = append(cs, 999999999999999, 100000000000001, 123456789012345, 500000000000000, 250000000000001, 449999999999999)
	es := []int{-15, -12, -11, -10, -9, -6, -3, -2, -1, 0, 1, 2, 3, 6, 9, 10, 11, 12, 15}
	if !quick {
		es = nil
		for e := -15; e <= 15; e++ {
			es = append(es, e)
		}
	}
	var out []string
	seen := map[string]bool{}
	add := func(lit string) {
		for _, s := range []string{lit, "(-" + lit + ")"} {
			if !seen[s] {
				seen[s] = true
				out = append(out, s)
			}
		}
	}
	for _, c := range cs {
		for _, e := range es {
			add(fmt.Sprintf("%de%d", c, e))
		}
	}
	for k := 0; k <= 12; k++ {
		add(fmt.Sprintf("%d.5", k))
		add(fmt.Sprintf("%d.25", k))
		add(fmt.Sprintf("%d.75", k))
		add(fmt.Sprintf("%d.49999999999999", k))
		add(fmt.Sprintf("%d.50000000000001", k))
	}
	// operands of 17 to 34 significant digits (a 16-digit working context must not leak into the
	// integer-valued functions), around 2^53, 2^63 and 2^64
	for _, l := range []string{"12345678901234567", "10000000000000001", "12345678901234567.5", "99999999999999999.5", "9007199254740993", "9007199254740992.5",
		"9223372036854775807.5", "9223372036854775808", "18446744073709551615.5", "18446744073709551616", "18446744073709551616.25", "99999999999999999999.5",
		"1234567890123456789012345678901234", "123456789012345678901234567890123.4", "12345678901234567890123456789012.75", "0.1234567890123456789012345678901234",
		"1000000000000000000000000000000001", "1234567890123456.5", "999999999999999.5", "4999999999999999.5", "2.000000000000000000000000000000001", "1.999999999999999999999999999999999"} {
		add(l)
	}
	// magnitudes outside the decimal64 exponent range (the 16-digit working context of sqrt exp ln log)
	for _, l := range []string{"1e800", "1e-800", "2.5e400", "4e-401", "1e5000", "9e-5000", "900", "1000", "12345.5", "1e6", "701", "1e-7000", "3e6200"} {
		add(l)
	}
	// fractions written with more than 64 decimal places (exact ties and ordinary values; the value has few
	// significant digits, so that every function is judged exactly)
	z64, z70 := strings.Repeat("0", 64), strings.Repeat("0", 70)
	for _, f := range []string{"0.75", "0.5", "0.25", "0.49", "0.51", "0.999", "1.5", "2.5", "0.05", "7.5", "0.0"} {
		add(f + z64)
		add(f + z70)
	}
	add("0.5" + strings.Repeat("0", 100))
	// next to 1 with more than 64 decimal places (41 significant digits: only the integer-valued and the
	// transcendental functions are judged)
	// (positive only: unary minus hands a 41-digit literal on in 34 digits)
	out = append(out, "1."+strings.Repeat("0", 39)+"1"+strings.Repeat("0", 30), "0."+strings.Repeat("9", 40)+strings.Repeat("0", 30), "1."+strings.Repeat("0", 19)+"1"+strings.Repeat("0", 50)+"7")
	add("1.001")
	add("170.6")
	add("2.718281828459045")
	add("0.000001")
	add("699.5")
	return out
}

func runC18(w *eng.W) {
	W = w
	if w.First() {
		if msg := ref.SelfCheck(); msg != "" {
			w.FailRaw("selfcheck", msg, eng.F("harness/reference-selfcheck", "high-precision reference failed its self-check: %s", msg))
		}
		w.Text("reference_selfcheck", "e and ln 10 to 60 digits, exp(ln x) = x to 1e-55: passed")
	}
	grid := c18Grid(w.Quick())
	w.Text("grid", fmt.Sprintf("%d decimal arguments", len(grid)))
	for _, x := range grid {
		if !w.Take() {
			continue
		}
		w.State(1)
		w.Trans(14)
		w.Trace(1)
		w.Note("leg:fn", 1)
		c := NumFnCase{x}
		w.Sample("fn", c)
		c18Fn.Do(w, c)
	}
	// max / min
	// zeros that carry an exponent, and numbers many orders of magnitude apart
	wide := []string{"0", "0e80", "(0 * 1e100)", "(1e-100 - 1e-100)", "0.000", "5", "(-5)", "1e100", "(-1e100)", "1e-100", "(-1e-100)", "3e-80", "(0 * -1e-90)"}
	for l := 1; l <= 3; l++ {
		seqsSharded(w, len(wide), l, func(idx []int) {
			args := make([]string, len(idx))
			for i, x := range idx {
				args[i] = wide[x]
			}
			w.State(1)
			w.Trans(2)
			w.Trace(1)
			w.Note("leg:maxmin-wide", 1)
			c := ListCase{args}
			w.Sample("maxmin-wide", c)
			c18List.Do(w, c)
		})
	}
	vals := []string{"1", "1.0", "(-2)", "10e-1", "3.5", "(-2.00)", "0", "1e1"}
	maxLen := 6
	pool := vals[:5]
	if !w.Quick() {
		pool = vals
		maxLen = 5
	}
	for l := 1; l <= maxLen; l++ {
		seqsSharded(w, len(pool), l, func(idx []int) {
			args := make([]string, len(idx))
			for i, x := range idx {
				args[i] = pool[x]
			}
			w.State(1)
			w.Trans(2)
			w.Trace(1)
			w.Note("leg:maxmin", 1)
			c := ListCase{args}
			w.Sample("maxmin", c)
			c18List.Do(w, c)
		})
	}
	// bit operators
	ints := []int64{0, 1, -1, 2, -2, 5, -5, 255, 256, 1 << 31, 1<<31 - 1, -(1 << 31), 1<<32 + 1, 1<<53 - 1, -(1<<53 - 1), 0x5555555555555, 0xAAAAAAAAAAAA, 1 << 40, 12345678901, -12345678901, 7, 8, 1023, 65535,
		// beyond 2^53: the integer values are still exact int64 values
		1<<53 + 1, -(1<<53 + 1), 1<<62 + 1, math.MaxInt64, math.MinInt64, math.MaxInt64 - 1, 0x5555555555555555, -0x5555555555555556, 1234567890123456789}
	for _, a := range ints {
		if !w.Take() {
			continue
		}
		for _, b := range ints {
			w.State(1)
			w.Trans(4)
			w.Trace(1)
			w.Note("leg:bits", 1)
			c := BitCase{a, b}
			w.Sample("bits", c)
			c18Bit.Do(w, c)
		}
	}
	fr := []string{"0", "2.7", "(-3.9)", "0.5", "(-0.5)", "2.999999", "7", "(-1)", "255.25", "1e-20", "(-0.0)", "4294967296.75", "(-2.5)"}
	for _, a := range fr {
		if !w.Take() {
			continue
		}
		for _, b := range fr {
			w.State(1)
			w.Trans(4)
			w.Trace(1)
			w.Note("leg:bits-fraction", 1)
			c := BitFracCase{a, b}
			w.Sample("bits-fraction", c)
			c18BitFrac.Do(w, c)
		}
	}
	spelled := []struct {
		s string
		v int64
	}{{"1e18", 1e18}, {"9e18", 9e18}, {"(-9e18)", -9e18}, {"5e18", 5e18}, {"(3e9 * 3e9)", 9e18}, {"toFloat('4e18')", 4e18}, {"90e17", 9e18}, {"9.2e18", 9200000000000000000}, {"1e17", 1e17},
		{"123e16", 1230000000000000000}, {"0.9e19", 9e18}, {"9000000000e9", 9e18}, {"(2e18 + 2e18)", 4e18}, {"1e0", 1}, {"1e1", 10}, {"12e2", 1200}, {"(-1e18)", -1e18}, {"1000e-3", 1}, {"7e15", 7e15}, {"1e9", 1e9},
		{"(1e19 / 10)", 1e18}, {"(-3e18 * 3)", -9e18}, {"9223372036854775807", math.MaxInt64}, {"1", 1}, {"(-1)", -1},
		// non-integers of 20 and more digits (quotients): the operators act on the value truncated toward zero
		{"(23/3)", 7}, {"(-23/3)", -7}, {"7.50000000000000000001", 7}, {"(5/3)", 1}, {"(200/3)", 66}, {"0.99999999999999999999", 0}, {"(-0.99999999999999999999)", 0}, {"(1e20/3 - 33333333333333333000)", 333}}
	for _, a := range spelled {
		if !w.Take() {
			continue
		}
		for _, b := range spelled {
			w.State(1)
			w.Trans(4)
			w.Trace(1)
			w.Note("leg:bits-spelled", 1)
			c := BitSpellCase{a.s, b.s, a.v, b.v}
			w.Sample("bits-spelled", c)
			c18BitSpell.Do(w, c)
		}
	}
	// conversions
	convs := []ConvCase{
		{"toFloat('12.5')", "12.5"}, {"toFloat('-3')", "-3"}, {"toFloat('0')", "0"}, {"toFloat('1e3')", "1000"}, {"toFloat('00012')", "12"},
		{"toFloat('2.50')", "2.5"}, {"toFloat('123456789012345678901234567890')", "123456789012345678901234567890"}, {"toFloat('0.000001')", "0.000001"},
		{"toFloat('1.5e-7')", "1.5e-7"}, {"toFloat('-0.75')", "-0.75"},
		{"toInt('1.5e3')", "1500"}, {"toInt('2.5E-1')", "0"}, {"toInt('-1.25e2')", "-125"}, {"toInt('42.9')", "42"}, {"toInt('-0.5')", "0"}, {"toInt('7')", "7"}, {"toInt('1e3')", "1000"}, {"toInt('12.5e-1')", "1"},
		{"toInt(toFloat('1.5e3')) === toInt('1.5e3') ? 1 : 0", "1"},
		{"toFloat('abc')", "NaN"}, {"toFloat('')", "NaN"}, {"toFloat('1x')", "NaN"}, {"toFloat('1 2')", "NaN"}, {"toFloat('--1')", "NaN"}, {"toFloat('twelve')", "NaN"}, {"toFloat('1,5')", "NaN"}, {"toFloat('$5')", "NaN"},
		// text that merely begins like a number, or has a digit-less part, is "other text"
		{"toFloat('.')", "NaN"}, {"toFloat('+.')", "NaN"}, {"toFloat('-.')", "NaN"}, {"toFloat('.e1')", "NaN"}, {"toFloat('e1')", "NaN"}, {"toFloat('1e')", "NaN"}, {"toFloat('1E')", "NaN"}, {"toFloat('1e+')", "NaN"}, {"toFloat('1.5e-')", "NaN"},
		{"toFloat('infinity5')", "NaN"}, {"toFloat('infinityx')", "NaN"}, {"toFloat('nanx')", "NaN"}, {"toFloat('1e5x')", "NaN"}, {"toFloat('1.2.3')", "NaN"}, {"toFloat('1e1e1')", "NaN"}, {"toFloat('-')", "NaN"}, {"toFloat('1-')", "NaN"}, {"toFloat('0x10')", "NaN"},
		{"finite('.')", "0"}, {"finite('1e')", "0"}, {"finite('infinity5')", "0"}, {"finite('1.5e-')", "0"},
		{"toFloat('.5')", "0.5"}, {"toFloat('5.')", "5"}, {"toFloat('-.5e1')", "-5"}, {"toFloat('1E2')", "100"}, {"toFloat('1e+2')", "100"}, {"toFloat('0e5')", "0"},
		{"finite(1/0)", "0"}, {"finite(-1/0)", "0"}, {"finite(0/0)", "0"}, {"finite('abc')", "0"}, {"finite(null)", "0"}, {"finite(true)", "0"}, {"finite([1])", "0"}, {"finite('')", "0"},
		// every way a non-number or a non-finite number can reach finite
		{"finite(toFloat(''))", "0"}, {"finite(toFloat('-'))", "0"}, {"finite(toFloat('abc'))", "0"}, {"finite(toFloat('infinit'))", "0"}, {"finite(toFloat('sNaN'))", "0"}, {"finite(toFloat('NaN'))", "0"},
		{"finite(toFloat([1]))", "0"}, {"finite(toFloat(null) / 0)", "0"}, {"finite(toInt('x'))", "0"}, {"finite(0/0 + 1)", "0"}, {"finite(-(0/0))", "0"}, {"finite(sqrt(-1))", "0"}, {"finite(ln(-1))", "0"},
		{"finite(ln(0))", "0"}, {"finite(1e999999999999999990 * 1e999999999999999990)", "0"}, {"finite(toFloat('Infinity'))", "0"}, {"finite(toFloat('-inf'))", "0"},
		{"finite(2.5)", "2.5"}, {"finite(1/4)", "0.25"}, {"finite(-7)", "-7"}, {"finite(0)", "0"},
		{"log(1)", "0"}, {"ln(1)", "0"}, {"exp(0)", "1"}, {"sqrt(0)", "0"}, {"sqrt(16)", "4"}, {"sqrt(0.25)", "0.5"},
	}
	convs = append(convs, ConvCase{"toInt(i16)", "7"}, ConvCase{"toFloat(i16)", "7"}, ConvCase{"finite(i16)", "7"}, ConvCase{"i16 & 3", "3"}, ConvCase{"u8 | 1", "201"}, ConvCase{"~i16", "-8"}, ConvCase{"abs(i8)", "3"},
		ConvCase{"toInt(u64)", "9223372036854775808"}, ConvCase{"max(i8, u8)", "200"}, ConvCase{"i16 + u8", "207"}, ConvCase{"-i8", "3"}, ConvCase{"floor(u / 5)", "2"}, ConvCase{"toFloat(u16) + 1", "65536"}, ConvCase{"u32 ^ u32", "0"},
		ConvCase{"round(u8 / 3)", "67"}, ConvCase{"min(u16, u32, i8)", "-3"}, ConvCase{"sqrt(u16 + 1)", "256"}, ConvCase{"toInt(toString(u8))", "200"}, ConvCase{"toInt(up) + (up & 1) + up % 4", "11"}, ConvCase{"up == 9 ? up * 2 : 0", "18"})
	for k := -15; k <= 15; k++ {
		convs = append(convs, ConvCase{fmt.Sprintf("log(1e%d)", k), strconv.Itoa(k)})
	}
	for _, c := range convs {
		if !w.Take() {
			continue
		}
		w.State(1)
		w.Trans(1)
		w.Trace(1)
		w.Note("leg:conv", 1)
		w.Sample("conv", c)
		c18Conv.Do(w, c)
	}
}
