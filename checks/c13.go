package checks

import (
	"fmt"
	"strings"

	"verif/internal/eng"
	"verif/internal/ref"
)

// StrCase: one string literal (raw source bytes) and the text it must evaluate to.
type StrCase struct {
	Lit    Bytes `json:"literal"`
	Want   Bytes `json:"want"`
	Open   bool  `json:"open"`             // must be rejected
	Before Bytes `json:"before,omitempty"` // a text parsed (and usually rejected) immediately before
}

var c13Str *eng.Kind[StrCase]

func init() {
	c := eng.Register(&eng.Check{
		ID:          "C13",
		Title:       "String literals round-trip every text through quoting and escaping",
		Rule:        "21 atoms (letters that would form accidental escapes after a mishandled backslash, space, both quotes, backslash, LF, CR, TAB, BS, FF, VT, NUL, 2- and 3-byte UTF-8, U+2028, U+0085, the invalid byte 0xFF): every text up to n atoms x both quote styles x every combination of the equivalent escape forms of each atom (named escape, \\xHH lower/upper, \\uHHHH, raw where allowed); the evaluated literal must equal the text byte for byte, alone and inside [..], f(..) and a concatenation; every literal left open at a line break or at end of input must be rejected; distinct = distinct texts",
		TrustedBase: []string{"reference escaper in checks/c13.go"},
		Run:         runC13,
	})
	c13Str = eng.NewKind(c, "string", judgeStr)
}

func judgeStr(c StrCase) *eng.Fail {
	src := []byte(c.Lit)
	if len(c.Before) > 0 {
		// whatever happens to this text (it may be rejected through any error path), the
		// literal parsed right after it must still denote its own text
		safeParse(c.Before)
	}
	if c.Open {
		for _, s := range [][]byte{src, append(append([]byte("["), src...), ']'), append([]byte("1 + "), src...)} {
			o := safeParse(s)
			if o.panicked {
				return eng.F("C13/panic", "parser panicked on %q: %s", s, o.panicMsg)
			}
			if o.err == nil {
				return eng.F("C13/open-literal-accepted", "open string literal accepted: %q", s)
			}
		}
		outcome("open")
		return nil
	}
	want := string(c.Want)
	outcome(want)
	data := map[string]interface{}{"f": goodFunc}
	eval := func(expr string) (interface{}, *eng.Fail) {
		o, perr := evalSrc(expr, data)
		if perr != nil {
			return nil, eng.F("C13/rejected", "literal %q (text %q) does not parse: %v", expr, want, perr)
		}
		if o.panicked || o.err != nil {
			return nil, eng.F("C13/eval", "%q: evaluation failed: %v %s", expr, o.err, o.panicMsg)
		}
		return o.val, nil
	}
	v, f := eval(string(src))
	if f != nil {
		return f
	}
	if s, ok := v.(string); !ok || s != want {
		return eng.F("C13/wrong-text", "literal %q evaluates to %s, expected %q", src, show(v), want)
	}
	v, f = eval("[" + string(src) + ", f(" + string(src) + ")]")
	if f != nil {
		return f
	}
	arr, ok := v.([]interface{})
	if !ok || len(arr) != 2 || arr[0] != interface{}(want) || arr[1] != interface{}(want) {
		return eng.F("C13/wrong-text", "[L, f(L)] with L=%q evaluates to %s, expected %q twice", src, show(v), want)
	}
	// next to the same characters written as a number, a name or a keyword: a literal is its text whatever
	// was evaluated before it on the same runner
	if _, verdict := ref.Parse([]byte("[" + want + "]")); verdict == ref.Accept && want != "" && !strings.ContainsAny(want, "'\"\\\n\r") {
		v, f = eval("[" + want + ", " + string(src) + ", ($s = " + string(src) + "), $s, typeof " + string(src) + "]")
		if f == nil {
			arr, ok := v.([]interface{})
			if !ok || len(arr) != 5 || arr[1] != interface{}(want) || arr[2] != interface{}(want) || arr[3] != interface{}(want) || arr[4] != interface{}("string") {
				return eng.F("C13/wrong-text", "[%s, L, ($s = L), $s, typeof L] with L=%q evaluates to %s: after the same characters were evaluated as an expression, the literal is still the text %q", want, src, show(v), want)
			}
		}
	}
	v, f = eval(string(src) + " + 'z' + " + string(src))
	if f != nil {
		return f
	}
	if s, ok := v.(string); !ok || s != want+"z"+want {
		return eng.F("C13/wrong-text", "L + 'z' + L with L=%q evaluates to %s", src, show(v))
	}
	return nil
}

type strAtom struct {
	text  string
	forms func(quote byte) []string // admissible spellings inside a literal delimited by quote
}

func hexForms(cp rune, withX bool) []string {
	var f []string
	if withX && cp <= 0xFF {
		f = append(f, fmt.Sprintf("\\x%02x", cp), fmt.Sprintf("\\x%02X", cp))
	}
	f = append(f, fmt.Sprintf("\\u%04x", cp), fmt.Sprintf("\\u%04X", cp))
	return f
}

func strAtoms() []strAtom {
	raw := func(s string, extra ...string) strAtom {
		return strAtom{s, func(byte) []string { return append([]string{s}, extra...) }}
	}
	only := func(s string, forms ...string) strAtom {
		return strAtom{s, func(byte) []string { return forms }}
	}
	q := func(ch byte) strAtom {
		return strAtom{string(ch), func(quote byte) []string {
			esc := append([]string{"\\" + string(ch)}, hexForms(rune(ch), true)...)
			if quote == ch {
				return esc
			}
			return append([]string{string(ch)}, esc...)
		}}
	}
	return []strAtom{
		raw("a", hexForms('a', true)...), raw("x"), raw("u"), raw("0"), raw("4"), raw("1"), raw(" "), raw("}"), raw("{"),
		q('\''), q('"'),
		only("\\", append([]string{"\\\\"}, hexForms('\\', true)...)...),
		only("\n", append([]string{"\\n"}, hexForms('\n', true)...)...),
		only("\r", append([]string{"\\r"}, hexForms('\r', true)...)...),
		raw("\t", append([]string{"\\t"}, hexForms('\t', true)...)...),
		raw("\b", "\\b", "\\x08"),
		raw("\f", "\\f", "\\u000c"),
		raw("\v", "\\v", "\\x0B"),
		raw("\x00", "\\0", "\\x00", "\\u0000"),
		raw("é", "\\xe9", "\\u00E9"),
		raw("中", "\\u4e2d", "\\u4E2D"),
		raw("\u9fa5", "\\u9fa5", "\\u9FA5"),
		raw("\uffe5", "\\uffe5", "\\uFFE5"),
		raw("\u8000", "\\u8000"),
		raw("\ufeff", "\\ufeff", "\\uFEFF"),
		raw("\u00a0", "\\xa0", "\\u00A0"),
		raw("\u200b", "\\u200b"),
		only("\u2028", "\\u2028"),
		only("\u0085", "\\u0085", "\\x85"),
		raw("\xff"),
	}
}

func runC13(w *eng.W) {
	W = w
	q := w.Quick()
	atoms := strAtoms()
	emit := func(leg string, c StrCase) {
		w.State(1)
		w.Trans(1)
		w.Trace(1)
		w.Note("leg:"+leg, 1)
		w.Sample(leg, c)
		c13Str.Do(w, c)
	}
	allForms := 2 // lengths up to which every combination of escape forms is explored
	canon := 3
	if !q {
		allForms, canon = 3, 4
	}
	// texts that look like values of another kind must stay texts
	for _, t := range []string{"2024-02-29T12:30:00Z", "2024-02-29T12:30:00+08:00", "2024-02-29T12:30:00.123456789Z", "2024-02-29", "12:30:00", "2024-02-29 12:30:00", "0001-01-01T00:00:00Z",
		"123", "-1.5", "1e5", "1.50", "1e+2", "5.", "1_0", "00", "0x1F", "NaN", "Infinity", "-Infinity", "1_000", "007", ".5", "true", "false", "null", "undefined", "this", "typeof x", "$a", "ctx",
		"{\"a\":1}", "[1,2]", "()", "1+1", "a.b", "f(x)", "1h30m", "P1D", "550e8400-e29b-41d4-a716-446655440000", "http://a/b?c=d#e", "a@b.c", "aGVsbG8=", "#ff0000", "%d %s", "${x}", "{{x}}", "<b>", "&amp;", "C:\\dir", "/*x*/", "//x", "--x", "'; drop", "Asia/Shanghai", "UTC", "Local", "+08:00"} {
		if !w.Take() {
			continue
		}
		for _, q := range []string{"'", "\""} {
			esc := strings.Replace(strings.Replace(t, "\\", "\\\\", -1), q, "\\"+q, -1)
			emit("look-alike", StrCase{Lit: Bytes(q + esc + q), Want: Bytes(t)})
		}
	}
	// code points at the boundaries of the UTF-8 length classes through both escape forms, and raw bytes
	// that are not valid UTF-8 (alone, as a truncated sequence, next to valid text): kept byte for byte
	for _, cp := range []rune{0x7f, 0x80, 0x81, 0x85, 0xa0, 0xbf, 0xc0, 0xff, 0x100, 0x7ff, 0x800, 0xfff, 0x1000, 0x2027, 0x2029, 0xd7ff, 0xe000, 0xfffd, 0xffff} {
		if !w.Take() {
			continue
		}
		want := string(cp)
		forms := []string{fmt.Sprintf("\\u%04x", cp), fmt.Sprintf("\\u%04X", cp)}
		if cp <= 0xff {
			forms = append(forms, fmt.Sprintf("\\x%02x", cp), fmt.Sprintf("\\x%02X", cp))
		}
		for _, f := range forms {
			for _, q := range []string{"'", "\""} {
				emit("boundary-code-points", StrCase{Lit: Bytes(q + f + q), Want: Bytes(want)})
				emit("boundary-code-points", StrCase{Lit: Bytes(q + "a" + f + f + "z" + q), Want: Bytes("a" + want + want + "z")})
			}
		}
	}
	for _, raw := range []string{"\x80", "\x85", "\xa0", "\xbf", "\xc3", "\xe6\x85", "\xe2\x80", "\xf0\x9f\x98", "\xc0\x80", "\xed\xa0\x80", "\xff\xfe", "a\x85b", "\xc3\x85\x85", "\x85\x85"} {
		if !w.Take() {
			continue
		}
		for _, q := range []string{"'", "\""} {
			emit("invalid-bytes", StrCase{Lit: Bytes(q + raw + q), Want: Bytes(raw)})
			emit("invalid-bytes", StrCase{Lit: Bytes(q + "x" + raw + "y\\n" + q), Want: Bytes("x" + raw + "y\n")})
		}
	}
	// long literals made of several pieces (raw runs separated by escapes), with piece lengths on both sides of
	// the sizes at which a scanner might switch buffers: the pieces keep their order
	for _, l1 := range []int{1, 31, 32, 33, 60, 63, 64, 65, 70, 127, 128, 129, 255, 256, 257, 1000} {
		if !w.Take() {
			continue
		}
		for _, l2 := range []int{0, 1, 10, 63, 64, 65, 200} {
			for _, q := range []string{"'", "\""} {
				lit := q + strings.Repeat("a", l1) + "\\n" + strings.Repeat("b", l2) + "\\t" + strings.Repeat("c", 3) + "\\x41" + strings.Repeat("d", l2) + "\\u4e2d" + q
				want := strings.Repeat("a", l1) + "\n" + strings.Repeat("b", l2) + "\t" + "ccc" + "A" + strings.Repeat("d", l2) + "中"
				emit("long-pieces", StrCase{Lit: Bytes(lit), Want: Bytes(want)})
			}
		}
	}
	// a rejected text parsed immediately before must not influence the next literal
	poisons := []string{"'\\xzz'", "\"\\uzzzz\"", "'C:\\users\\xavier'", "'abc", "'a\nb'", "\"\\xg1\"", "(1 2", "a b", "'\\u12", "'tail\\", "'p' + 'q\\xhh", "0x1 'k'"}
	for _, pz := range poisons {
		if !w.Take() {
			continue
		}
		for _, lit := range []string{"'plain'", "\"plain\"", "''", "'\\x41\\u4e2d'", "'a\\nb'", "'it\\'s'"} {
			want := map[string]string{"'plain'": "plain", "\"plain\"": "plain", "''": "", "'\\x41\\u4e2d'": "A中", "'a\\nb'": "a\nb", "'it\\'s'": "it's"}[lit]
			for rep := 0; rep < 3; rep++ {
				emit("after-rejected-text", StrCase{Lit: Bytes(lit), Want: Bytes(want), Before: Bytes(pz)})
			}
		}
	}
	for l := 0; l <= canon; l++ {
		seqsSharded(w, len(atoms), l, func(idx []int) {
			text := ""
			for _, x := range idx {
				text += atoms[x].text
			}
			for _, quote := range []byte{'\'', '"'} {
				forms := make([][]string, len(idx))
				for i, x := range idx {
					forms[i] = atoms[x].forms(quote)
				}
				if l > allForms {
					// canonical spelling only: first admissible form of each atom
					lit := string(quote)
					for i := range idx {
						lit += forms[i][0]
					}
					emit("canonical", StrCase{Lit: Bytes(lit + string(quote)), Want: Bytes(text)})
					// and the last form of each atom
					lit = string(quote)
					for i := range idx {
						lit += forms[i][len(forms[i])-1]
					}
					emit("canonical", StrCase{Lit: Bytes(lit + string(quote)), Want: Bytes(text)})
					continue
				}
				sel := make([]int, len(idx))
				for {
					lit := string(quote)
					for i := range idx {
						lit += forms[i][sel[i]]
					}
					emit("all-forms", StrCase{Lit: Bytes(lit + string(quote)), Want: Bytes(text)})
					// open variants: no closing quote
					if l <= 2 {
						emit("open", StrCase{Lit: Bytes(lit), Open: true})
					}
					i := len(sel) - 1
					for i >= 0 {
						sel[i]++
						if sel[i] < len(forms[i]) {
							break
						}
						sel[i] = 0
						i--
					}
					if i < 0 {
						break
					}
				}
			}
			// one raw line break inside the literal: must be rejected
			if l >= 1 && l <= 3 {
				for _, br := range []string{"\n", "\r", "\r\n", "\u2028", "\u2029", "\u0085"} {
					for pos := 0; pos <= len(idx); pos++ {
						lit := "'"
						for i, x := range idx {
							if i == pos {
								lit += br
							}
							lit += atoms[x].forms('\'')[len(atoms[x].forms('\''))-1]
						}
						if pos == len(idx) {
							lit += br
						}
						emit("open", StrCase{Lit: Bytes(lit + "'"), Open: true})
					}
				}
			}
		})
	}
}
