package checks

import (
	"fmt"
	"github.com/ericlagergren/decimal"
	"math"
	"strconv"
	"strings"

	formula "github.com/aundis/formula"

	"verif/internal/eng"
	"verif/internal/ref"
)

// ArithCase: x op y written as literals.
type ArithCase struct {
	X  string `json:"x"`
	Op string `json:"op"`
	Y  string `json:"y"`
}

// ChainCase: a left- or right-nested chain of three operations.
type ChainCase struct {
	A, B, C, D string
	O1, O2, O3 string
	Right      bool
	Balanced   bool // (a o1 b) o2 (c o3 d): two intermediate results are alive at once
	Flat       bool // a o1 b o2 c o3 d without parentheses: the grammar decides the grouping
}

// DataNumCase: Go numeric values entering through the data map.
type DataNumCase struct {
	Kind string  `json:"kind"` // float64 | int | int64 | int32
	F    float64 `json:"f,omitempty"`
	I    int64   `json:"i,omitempty"`
	F2   float64 `json:"f2,omitempty"` // second operand for the pair form
	Pair bool    `json:"pair,omitempty"`
}

// ProvCase: an operand that reaches the operator as the result of a builtin / host function /
// local (same value as the literal V), combined with a literal operand.
type ProvCase struct {
	Wrap string `json:"wrap"` // formula text with %s for the literal
	V    string `json:"v"`
	Op   string `json:"op"`
	Y    string `json:"y"`
	Left bool   `json:"wrapped_is_left"`
}

var c04Prov *eng.Kind[ProvCase]
var c04Arith *eng.Kind[ArithCase]
var c04Far *eng.Kind[ArithCase]
var c04Chain *eng.Kind[ChainCase]
var c04Data *eng.Kind[DataNumCase]

func init() {
	c := eng.Register(&eng.Check{
		ID:          "C04",
		Title:       "Decimal arithmetic is exact",
		Rule:        "operand grid of 880 decimals (40 coefficients incl. 15/16/17/33/34-digit patterns and powers of two around 2^53/2^63/2^64, 11 exponents within +-30, both signs): every ordered pair under + - * / %, every left- and right-nested chain of three operations over a sub-grid, float64/int/int64 data values (short and long binary expansions, whole numbers up to 2^52 with 1 to 16 fractional bits, beyond 2^53) alone, against the same literal and pairwise under +; each evaluated as '[e]' (decimal value) and as 'e' (returned float64) and compared with exact big-integer decimal arithmetic rounded half-even to 34 digits; distinct = distinct exact results",
		TrustedBase: []string{"internal/ref/dec.go (exact decimals on math/big)", "strconv.ParseFloat/FormatFloat (correctly rounded)"},
		Assumptions: []string{"division and remainder by zero are not judged (statement silent)", "a remainder that needs more than 34 digits is out of claim and only counted"},
		Run:         runC04,
	})
	c04Arith = eng.NewKind(c, "arith", judgeArith)
	c04Far = eng.NewKind(c, "arith-far", judgeArithFar)
	c04Chain = eng.NewKind(c, "chain", judgeChain)
	c04Data = eng.NewKind(c, "data", judgeDataNum)
	c04Prov = eng.NewKind(c, "provenance", judgeProv)
	c04After = eng.NewKind(c, "after-integer-builtins", judgeAfter)
	c04Share = eng.NewKind(c, "shared-operand", judgeShare)
}

// value-preserving wrappers: every way a number can be "computed" before it meets an operator
var provWraps = []string{"toInt(%s)", "round(%s)", "roundBank(%s)", "floor(%s)", "ceil(%s)", "abs(%s)", "max(%s)", "min(%s, 1e40)", "finite(%s)", "toFloat(%s)",
	"toFloat(toString(%s))", "(%s)", "+%s", "-(-%s)", "(%s + finite(null))", "(finite(null) + %s)", "(%s * toInt(1))", "(c ? %s : 0)", "($p = %s)", "($q = %s, $q)", "($r = %s, $s = $r, $s)", "idf(%s)", "hostint(%s)", "(%s ?? 1)", "(0 || %s)", "[%s, 0] == 0 ? 0 : %s"}

func judgeProv(c ProvCase) *eng.Fail {
	if strings.Contains(c.Wrap, "== 0 ?") {
		return nil // placeholder wrapper kept out (arrays are not compared)
	}
	v, y := parseOperand(c.V), parseOperand(c.Y)
	wrapped := strings.Replace(c.Wrap, "%s", c.V, -1)
	var expr string
	var want ref.Dec
	var ok bool
	if c.Left {
		expr = wrapped + " " + c.Op + " " + c.Y
		want, ok = refOp(c.Op, v, y)
	} else {
		expr = c.Y + " " + c.Op + " " + wrapped
		want, ok = refOp(c.Op, y, v)
	}
	if !ok {
		return nil
	}
	data := map[string]interface{}{
		"c":       true,
		"idf":     func(x interface{}) (interface{}, error) { return x, nil },
		"hostint": func(x int64) (int64, error) { return x, nil },
	}
	o, perr := evalSrc("["+expr+"]", data)
	if perr != nil {
		return eng.F("C04/parse", "%s does not parse: %v", expr, perr)
	}
	got, msg := elem0(o)
	if msg != "" {
		return eng.F("C04/eval", "%s: %s", expr, msg)
	}
	outcome(want.String())
	if !got.Finite() || !got.Equal(want) {
		return eng.F("C04/provenance-"+opName(c.Op), "%s = %s, exact result (half-even to 34 digits) is %s: the operand's history changed the arithmetic", expr, got, want)
	}
	return nil
}

func parseOperand(s string) ref.Dec {
	s = strings.TrimSuffix(strings.TrimPrefix(s, "("), ")")
	s = strings.Replace(s, "_", "", -1) // separators are not part of the number
	d, ok := ref.ParseDec(s)
	if !ok {
		panic("harness: bad operand " + s)
	}
	return d
}

// refOp applies one operator under the statement's rounding rule; ok=false: not judged.
func refOp(op string, x, y ref.Dec) (ref.Dec, bool) {
	switch op {
	case "+":
		return ref.Add(x, y).RoundHE(34), true
	case "-":
		return ref.Sub(x, y).RoundHE(34), true
	case "*":
		return ref.Mul(x, y).RoundHE(34), true
	case "/":
		if y.IsZero() {
			return ref.Dec{}, false
		}
		return ref.Quo(x, y, 34), true
	case "%":
		if y.IsZero() {
			return ref.Dec{}, false
		}
		r := ref.Rem(x, y)
		if r.Digits() > 34 {
			note("rem_out_of_claim", 1)
			return ref.Dec{}, false
		}
		return r, true
	}
	panic("harness: unknown op " + op)
}

func elem0(o evalOut) (ref.Dec, string) {
	if o.panicked {
		return ref.Dec{}, "panic: " + o.panicMsg
	}
	if o.err != nil {
		return ref.Dec{}, "error: " + o.err.Error()
	}
	arr, ok := o.val.([]interface{})
	if !ok || len(arr) != 1 {
		return ref.Dec{}, "not a one-element array: " + show(o.val)
	}
	d, ok := decOf(arr[0])
	if !ok {
		return ref.Dec{}, "element is not a number: " + show(arr[0])
	}
	return d, ""
}

func ulpDiff(a, b float64) float64 {
	if a == b {
		return 0
	}
	if math.IsNaN(a) || math.IsNaN(b) || math.IsInf(a, 0) || math.IsInf(b, 0) {
		return math.Inf(1)
	}
	ia, ib := int64(math.Float64bits(a)), int64(math.Float64bits(b))
	if ia < 0 {
		ia = math.MinInt64 - ia
	}
	if ib < 0 {
		ib = math.MinInt64 - ib
	}
	return math.Abs(float64(ia - ib))
}

// checkFloat judges the float64 handed back for a decimal result want.
func checkFloat(src string, data map[string]interface{}, want ref.Dec) *eng.Fail {
	o, _ := evalSrc(src, data)
	if o.panicked || o.err != nil {
		return eng.F("C04/float-eval", "%s: evaluation failed: %v %s", src, o.err, o.panicMsg)
	}
	got, ok := o.val.(float64)
	if !ok {
		return eng.F("C04/float-type", "%s: top-level result is %s, expected a float64", src, show(o.val))
	}
	nearest, err := strconv.ParseFloat(want.Plain(), 64)
	if err != nil {
		// overflow to infinity: outside the claim
		return nil
	}
	// integer of at most 15 digits scaled by 10^-22..10^22: must be the nearest float64
	c := want
	trimmed := strings.TrimRight(c.C.Text(10), "0")
	exp := c.E + len(c.C.Text(10)) - len(trimmed)
	if c.C.Sign() == 0 {
		trimmed, exp = "0", 0
	}
	if len(trimmed) <= 15 && exp >= -22 && exp <= 22 {
		if got != nearest {
			return eng.F("C04/float-nearest", "%s: returned float64 %v, nearest to %s is %v", src, got, want.Plain(), nearest)
		}
		return nil
	}
	if ulpDiff(got, nearest) > 4 {
		return eng.F("C04/float-ulp", "%s: returned float64 %v is %v ulp from %v (decimal %s)", src, got, ulpDiff(got, nearest), nearest, want.Plain())
	}
	return nil
}

// AfterCase: an ordinary operation evaluated after another evaluation somewhere else in the process
// (another runner) used the integer-valued builtins on numbers of every magnitude.
type AfterCase struct {
	Pre string `json:"pre"`
	X   string `json:"x"`
	Op  string `json:"op"`
	Y   string `json:"y"`
}

var c04After *eng.Kind[AfterCase]

func judgeAfter(c AfterCase) *eng.Fail {
	evalSrc("["+c.Pre+"]", map[string]interface{}{"hi": func(n int64) (int64, error) { return n, nil }}) // whatever it yields
	f := judgeArith(ArithCase{c.X, c.Op, c.Y})
	if f != nil && strings.HasPrefix(f.Key, "C04/wrong-") {
		f.Key = "C04/after-" + opName(c.Op)
		f.Msg = "after an evaluation of " + c.Pre + " on another runner: " + f.Msg
	}
	return f
}

// ShareCase: a number that several holders share (a local, the operand handed through max / ?: / && / ??,
// a number object in the caller's data) is negated; every other holder keeps its value.
type ShareCase struct {
	Holder string `json:"holder"` // text with %s for the name
	V      string `json:"v"`
	Data   bool   `json:"in_data"` // the number is a *decimal.Big in the data map instead of a local
}

var c04Share *eng.Kind[ShareCase]

func judgeShare(c ShareCase) *eng.Fail {
	v := parseOperand(c.V)
	name := "$a"
	src := "$a = " + c.V + ", "
	data := map[string]interface{}{"t": true}
	var obj *decimal.Big
	if c.Data {
		name, src = "big", ""
		obj, _ = new(decimal.Big).SetString(strings.Trim(c.V, "()"))
		data["big"] = obj
	}
	h := strings.Replace(c.Holder, "%s", name, -1)
	src += "$n = -" + h + ", [" + name + " + $n, " + name + ", " + name + " * 2 + $n, -" + h + " + " + name + ", $n + " + name + "]"
	o, perr := evalSrc(src, data)
	if perr != nil {
		return eng.F("C04/parse", "%s does not parse: %v", src, perr)
	}
	if o.panicked || o.err != nil {
		return eng.F("C04/eval", "%s: %v %s", src, o.err, o.panicMsg)
	}
	arr, _ := o.val.([]interface{})
	if len(arr) != 5 {
		return eng.F("C04/eval", "%s = %s", src, show(o.val))
	}
	zero, _ := ref.ParseDec("0")
	want := []ref.Dec{zero, v, v, zero, zero}
	for i, wd := range want {
		d, ok := decOf(arr[i])
		if !ok || !d.Finite() || d.Cmp(wd) != 0 {
			return eng.F("C04/shared-operand", "%s = %s: element %d must be %s (negating a number must not change the other holders of that number)", src, show(o.val), i+1, wd)
		}
	}
	if obj != nil {
		if d, ok := decOf(obj); !ok || d.Cmp(v) != 0 {
			return eng.F("C04/shared-operand", "%s: the caller's number object was %s and is %s after the evaluation", src, c.V, show(obj))
		}
	}
	outcome("share " + v.String())
	return nil
}

func judgeArith(c ArithCase) *eng.Fail {
	x, y := parseOperand(c.X), parseOperand(c.Y)
	want, ok := refOp(c.Op, x, y)
	if !ok {
		return nil
	}
	expr := c.X + " " + c.Op + " " + c.Y
	o, perr := evalSrc("["+expr+"]", nil)
	if perr != nil {
		return eng.F("C04/parse", "%s does not parse: %v", expr, perr)
	}
	got, msg := elem0(o)
	if msg != "" {
		return eng.F("C04/eval", "%s: %s", expr, msg)
	}
	outcome(want.String())
	if !got.Finite() || !got.Equal(want) {
		key := "C04/wrong-" + opName(c.Op)
		return eng.F(key, "%s = %s, exact result (half-even to 34 digits) is %s", expr, got, want)
	}
	return checkFloat(expr, nil, want)
}

// judgeArithFar: the same oracle for operands far outside the decimal128 exponent range (no float64
// rendering: the plain text of such a number has billions of digits).
func judgeArithFar(c ArithCase) *eng.Fail {
	x, y := parseOperand(c.X), parseOperand(c.Y)
	if (c.Op == "+" || c.Op == "-") && (x.E-y.E > 200 || y.E-x.E > 200) {
		return eng.F("harness/far-operands", "operands of %s too far apart for the reference", c.Op)
	}
	var want ref.Dec
	var ok bool
	if c.Op == "%" && (x.E-y.E > 200 || y.E-x.E > 200) {
		if y.IsZero() {
			return nil
		}
		want, ok = ref.RemFar(x, y), true // modular arithmetic instead of alignment
		if want.Digits() > 34 {
			return nil
		}
	} else {
		want, ok = refOp(c.Op, x, y)
	}
	if !ok {
		return nil
	}
	expr := c.X + " " + c.Op + " " + c.Y
	// also through negation and a comparison with the literal spelling of the expected value
	o, perr := evalSrc("["+expr+", -("+expr+") < 0, "+expr+" === "+decLiteral(want)+"]", nil)
	if perr != nil {
		return eng.F("C04/parse", "%s does not parse: %v", expr, perr)
	}
	if o.panicked || o.err != nil {
		return eng.F("C04/eval", "%s: %v %s", expr, o.err, o.panicMsg)
	}
	arr, _ := o.val.([]interface{})
	if len(arr) != 3 {
		return eng.F("C04/eval", "%s: %s", expr, show(o.val))
	}
	got, ok := decOf(arr[0])
	outcome(want.String())
	if !ok || !got.Finite() || !got.Equal(want) {
		return eng.F("C04/wrong-"+opName(c.Op), "%s = %s, exact result (half-even to 34 digits) is %s", expr, show(arr[0]), want)
	}
	pos := !want.IsZero() && !want.Neg
	if arr[1] != interface{}(pos) || arr[2] != interface{}(true) {
		return eng.F("C04/wrong-"+opName(c.Op), "[-(%s) < 0, %s === %s] = [%s, %s], expected [%v, true]", expr, expr, decLiteral(want), show(arr[1]), show(arr[2]), pos)
	}
	return nil
}

// decLiteral spells a reference number as a literal (coefficient and exponent, parenthesised when negative).
func decLiteral(d ref.Dec) string {
	s := d.C.Text(10) + "e" + strconv.Itoa(d.E)
	if d.Neg {
		return "(-" + s + ")"
	}
	return s
}

func opName(op string) string {
	return map[string]string{"+": "add", "-": "sub", "*": "mul", "/": "quo", "%": "rem"}[op]
}

// refArith evaluates a reference tree of number literals, parentheses, unary minus and the five
// binary operators under the statement's rounding rule (every operation rounds on its own).
func refArith(n *ref.N) (ref.Dec, bool) {
	switch n.K {
	case "num":
		return ref.ParseDec(n.Val)
	case "paren":
		return refArith(n.Kids[0])
	case "prefix":
		v, ok := refArith(n.Kids[0])
		if !ok || n.Op != "-" && n.Op != "+" {
			return v, false
		}
		if n.Op == "-" {
			v.Neg = !v.Neg && !v.IsZero()
		}
		return v.RoundHE(34), true
	case "bin":
		a, ok1 := refArith(n.Kids[0])
		b, ok2 := refArith(n.Kids[1])
		if !ok1 || !ok2 {
			return a, false
		}
		switch n.Op {
		case "+", "-", "*", "/", "%":
			return refOp(n.Op, a, b)
		}
	}
	return ref.Dec{}, false
}

// judgeFlat: a chain written WITHOUT parentheses; the grammar's precedence and left associativity
// decide the grouping (reference parser), and every operation rounds on its own.
func judgeFlat(c ChainCase) *eng.Fail {
	expr := fmt.Sprintf("%s %s %s %s %s %s %s", c.A, c.O1, c.B, c.O2, c.C, c.O3, c.D)
	rt, v := ref.Parse([]byte(expr))
	if v != ref.Accept {
		return eng.F("harness/flat-chain", "%s is not derivable", expr)
	}
	want, ok := refArith(rt)
	if !ok {
		return nil
	}
	o, perr := evalSrc("["+expr+"]", nil)
	if perr != nil {
		return eng.F("C04/parse", "%s does not parse: %v", expr, perr)
	}
	got, msg := elem0(o)
	if msg != "" {
		return eng.F("C04/eval", "%s: %s", expr, msg)
	}
	outcome(want.String())
	if !got.Finite() || !got.Equal(want) {
		return eng.F("C04/wrong-chain", "%s (no parentheses) = %s, expected %s: each operation rounds to 34 digits on its own, grouped as %s", expr, got, want, rt)
	}
	return nil
}

func judgeChain(c ChainCase) *eng.Fail {
	if c.Flat {
		return judgeFlat(c)
	}
	a, b, cc, d := parseOperand(c.A), parseOperand(c.B), parseOperand(c.C), parseOperand(c.D)
	var want ref.Dec
	var ok bool
	var expr string
	if c.Balanced {
		expr = fmt.Sprintf("(%s %s %s) %s (%s %s %s)", c.A, c.O1, c.B, c.O2, c.C, c.O3, c.D)
		var l, r ref.Dec
		if l, ok = refOp(c.O1, a, b); ok {
			if r, ok = refOp(c.O3, cc, d); ok {
				want, ok = refOp(c.O2, l, r)
			}
		}
	} else if !c.Right {
		expr = fmt.Sprintf("((%s %s %s) %s %s) %s %s", c.A, c.O1, c.B, c.O2, c.C, c.O3, c.D)
		if want, ok = refOp(c.O1, a, b); ok {
			if want, ok = refOp(c.O2, want, cc); ok {
				want, ok = refOp(c.O3, want, d)
			}
		}
	} else {
		expr = fmt.Sprintf("%s %s (%s %s (%s %s %s))", c.A, c.O1, c.B, c.O2, c.C, c.O3, c.D)
		if want, ok = refOp(c.O3, cc, d); ok {
			if want, ok = refOp(c.O2, b, want); ok {
				want, ok = refOp(c.O1, a, want)
			}
		}
	}
	if !ok {
		return nil
	}
	o, perr := evalSrc("["+expr+"]", nil)
	if perr != nil {
		return eng.F("C04/parse", "%s does not parse: %v", expr, perr)
	}
	got, msg := elem0(o)
	if msg != "" {
		return eng.F("C04/eval", "%s: %s", expr, msg)
	}
	outcome(want.String())
	if !got.Finite() || !got.Equal(want) {
		return eng.F("C04/wrong-chain", "%s = %s, expected %s", expr, got, want)
	}
	if c.Balanced {
		// independent results that are alive at the same time must not influence each other
		l, ok1 := refOp(c.O1, a, b)
		r, ok2 := refOp(c.O3, cc, d)
		if ok1 && ok2 {
			twin := fmt.Sprintf("[%s %s %s, %s %s %s, %s %s %s]", c.A, c.O1, c.B, c.C, c.O3, c.D, c.A, c.O1, c.B)
			o, perr := evalSrc(twin, nil)
			if perr != nil || o.panicked || o.err != nil {
				return eng.F("C04/eval", "%s: %v %v %s", twin, perr, o.err, o.panicMsg)
			}
			arr, _ := o.val.([]interface{})
			if len(arr) != 3 {
				return eng.F("C04/eval", "%s: result %s", twin, show(o.val))
			}
			for i, w := range []ref.Dec{l, r, l} {
				g, ok := decOf(arr[i])
				if !ok || !g.Finite() || !g.Equal(w) {
					return eng.F("C04/independent-results", "%s: element %d is %s, expected %s", twin, i, show(arr[i]), w)
				}
			}
		}
	}
	return nil
}

func judgeDataNum(c DataNumCase) *eng.Fail {
	var v interface{}
	var lit string
	switch c.Kind {
	case "float64":
		v = c.F
		lit = strconv.FormatFloat(c.F, 'f', -1, 64)
	case "int":
		v = int(c.I)
		lit = strconv.FormatInt(c.I, 10)
	case "int64":
		v = c.I
		lit = strconv.FormatInt(c.I, 10)
	case "int32":
		v = int32(c.I)
		lit = strconv.FormatInt(int64(int32(c.I)), 10)
	}
	want, ok := ref.ParseDec(lit)
	if !ok {
		return eng.F("harness/data-literal", "cannot parse %q", lit)
	}
	data := map[string]interface{}{"v": v, "w": c.F2}
	if c.Pair {
		w2, _ := ref.ParseDec(strconv.FormatFloat(c.F2, 'f', -1, 64))
		sum := ref.Add(want, w2).RoundHE(34)
		o, _ := evalSrc("[v + w]", data)
		got, msg := elem0(o)
		if msg != "" {
			return eng.F("C04/eval", "v + w with v=%s w=%v: %s", lit, c.F2, msg)
		}
		outcome(sum.String())
		if !got.Equal(sum) {
			return eng.F("C04/data-sum", "v + w with v=%s, w=%s gives %s, exact sum of the printed decimals is %s", lit, strconv.FormatFloat(c.F2, 'f', -1, 64), got, sum)
		}
		return nil
	}
	o, _ := evalSrc("[v]", data)
	got, msg := elem0(o)
	if msg != "" {
		return eng.F("C04/eval", "[v] with v=%s(%s): %s", c.Kind, lit, msg)
	}
	outcome(want.String())
	if !got.Equal(want) {
		return eng.F("C04/data-entry-"+c.Kind, "%s value %s entered the computation as %s", c.Kind, lit, got)
	}
	neglit := lit
	if strings.HasPrefix(lit, "-") {
		neglit = "(" + lit + ")"
	}
	o2, perr := evalSrc("v === "+neglit, data)
	if perr != nil || o2.panicked || o2.err != nil {
		return eng.F("C04/eval", "v === %s: %v %v %s", neglit, perr, o2.err, o2.panicMsg)
	}
	if o2.val != true {
		return eng.F("C04/data-equals-literal-"+c.Kind, "%s value %s is not === to the same number written as a literal (got %s)", c.Kind, lit, show(o2.val))
	}
	if c.Kind == "float64" || math.Abs(float64(c.I)) < 1e15 {
		return checkFloat("v", data, want)
	}
	return nil
}

func gridCoefficients() []string {
	c := []string{"0", "1", "2", "3", "5", "7", "9", "10", "11", "25", "99", "125"}
	nines := func(n int) string { return strings.Repeat("9", n) }
	for _, k := range []int{15, 16, 33} {
		p := "1" + strings.Repeat("0", k)
		c = append(c, nines(k), p[:len(p)-1]+"1", "5"+strings.Repeat("0", k))
	}
	c = append(c, nines(17), nines(34), strings.Repeat("3", 34), strings.Repeat("6", 33)+"7",
		"9007199254740992", "9007199254740993", "9223372036854775807", "18446744073709551616", "18446744073709551617",
		"1234567890123456789012345678901234", "4999999999999999999999999999999995", "142857", "1000000007", "271828182845904523536028747135266", "5000000000000000000000000000000001")
	return c
}

var gridExponents = []int{-30, -20, -3, -2, -1, 0, 1, 2, 3, 20, 30}

func gridOperands() []string {
	var ops []string
	for _, c := range gridCoefficients() {
		for _, e := range gridExponents {
			lit := c + "e" + strconv.Itoa(e)
			ops = append(ops, lit, "(-"+lit+")")
		}
	}
	return ops
}

func dataFloats(quick bool) []float64 {
	var fs []float64
	maxK := 200
	if quick {
		maxK = 40
	}
	for _, d := range []float64{1, 3, 7, 10, 100, 1000} {
		for k := 0; k <= maxK; k++ {
			fs = append(fs, float64(k)/d, -float64(k)/d)
		}
	}
	for e := -1074; e <= 1023; e += 7 {
		fs = append(fs, math.Ldexp(1, e))
	}
	// whole numbers of every size with a few fractional bits: floats whose exact binary expansion is much
	// longer than the shortest decimal that names them (123456789.0009765625 prints as 123456789.00097656)
	for _, m := range []float64{1, 1000, 4194303, 4194305, 123456789, 1 << 30, 1<<33 + 1, 1e12 + 1, 1<<40 + 5, 1<<43 - 1, 1<<46 + 3, 1<<50 + 1, 1<<52 - 1} {
		for b := 1; b <= 16; b++ {
			den := math.Ldexp(1, b)
			for _, j := range []float64{1, 3, den - 1} {
				f := m + j/den
				if f-m != j/den || (quick && b%3 == 2) {
					continue // not representable: the sum was rounded
				}
				fs = append(fs, f, -f)
			}
		}
	}
	fs = append(fs, 5e-324, math.MaxFloat64, 9007199254740990, 9007199254740992, 9007199254740994, 30.749999000000003, 0.1, 0.2, 0.3, 1e22, 1e23, 1e-7, 123456789.125, 4.35, 2.675, 1.005)
	return fs
}

var dataInts = []int64{0, 1, -1, 2, 1 << 31, -(1 << 31), 1<<31 - 1, 9007199254740991, 9007199254740992, 9007199254740993, -9007199254740993,
	1000000000000000001, math.MaxInt64, math.MaxInt64 - 1, math.MinInt64, math.MinInt64 + 1, 123456789012345678, 99999999999999999, 1 << 62, 1<<62 + 1, 4611686018427387905}

func runC04(w *eng.W) {
	W = w
	q := w.Quick()
	ops := gridOperands()
	if q {
		// every third operand, all operators: 294^2*5 = 432k
		var sub []string
		for i, o := range ops {
			if i%3 == 0 || strings.Contains(o, "9007199254740993") {
				sub = append(sub, o)
			}
		}
		ops = sub
	}
	w.Note("grid_operands", 0)
	w.Text("grid", fmt.Sprintf("%d operands x %d operands x 5 operators", len(ops), len(ops)))
	for _, x := range ops {
		if !w.Take() || w.Expired() {
			continue
		}
		for _, y := range ops {
			for _, op := range []string{"+", "-", "*", "/", "%"} {
				w.State(1)
				w.Trans(1)
				w.Trace(1)
				w.Note("leg:pairs", 1)
				c := ArithCase{x, op, y}
				w.Sample("pairs", c)
				c04Arith.Do(w, c)
			}
		}
	}
	// chains over a sub-grid
	sub := []string{"1e0", "3e0", "7e-1", "(-2e0)", "6666666666666666666666666666666667e-34", "1428571428571428571428571428571429e-34", "9999999999999999999999999999999999e0", "1e-30", "5e30", "142857e-3", "(-125e-3)", "9007199254740993e0", "0e0", "6666666666666666666666666666666667e-20"}
	if q {
		sub = sub[:9]
	}
	cops := []string{"+", "-", "*", "/", "%"}
	seqsSharded(w, len(sub), 4, func(idx []int) {
		seqs(len(cops), 3, func(o []int) {
			for shape := 0; shape < 4; shape++ {
				w.State(1)
				w.Trans(3)
				w.Trace(1)
				w.Note("leg:chains", 1)
				c := ChainCase{A: sub[idx[0]], B: sub[idx[1]], C: sub[idx[2]], D: sub[idx[3]], O1: cops[o[0]], O2: cops[o[1]], O3: cops[o[2]], Right: shape == 1, Balanced: shape == 2, Flat: shape == 3}
				w.Sample("chains", c)
				c04Chain.Do(w, c)
			}
		})
	})
	// spellings: the same operand written with separators, upper-case E, explicit plus, leading and
	// trailing zeros must be the same number (compared inside the language and by value)
	spell := func(coef string, exp int) []string {
		sep := coef
		if len(coef) > 1 {
			sep = coef[:1] + "_" + coef[1:]
		}
		if len(coef) > 4 {
			sep = coef[:2] + "_" + coef[2:len(coef)-1] + "_" + coef[len(coef)-1:]
		}
		sign := ""
		if exp >= 0 {
			sign = "+"
		}
		return []string{
			fmt.Sprintf("%se%d", sep, exp), fmt.Sprintf("%sE%s%d", coef, sign, exp), fmt.Sprintf("%s_0e%d", coef, exp-1), fmt.Sprintf("00%s.000e%d", coef, exp),
			fmt.Sprintf("%s.0_0E%d", sep, exp), fmt.Sprintf("0.%se%d", coef, exp+len(coef)), fmt.Sprintf(".%s_0e%s%d", coef, sign, exp+len(coef)),
		}
	}
	for ci, coef := range gridCoefficients() {
		if !w.Take() {
			continue
		}
		for _, exp := range []int{-30, -3, -1, 0, 2, 30} {
			canon := fmt.Sprintf("%se%d", coef, exp)
			for _, alt := range spell(coef, exp) {
				for _, op := range []string{"+", "-", "*"} {
					w.State(1)
					w.Trans(1)
					w.Trace(1)
					w.Note("leg:spellings", 1)
					c := ArithCase{X: alt, Op: op, Y: []string{"0e0", "1e0", canon}[ci%3]}
					w.Sample("spellings", c)
					c04Arith.Do(w, c)
				}
			}
		}
	}
	// provenance: integer-valued operands that arrive as results of builtins, host functions, locals
	provVals := []string{"7e0", "2e0", "3000000000000000000000000000000001e0", "1e0", "(-5e0)", "9007199254740993e0"}
	provYs := []string{"3e0", "7e0", "(-3e0)", "6e0", "1000000000000000000000001e-24", "9999999999999999999999999999999999e0", "2e0"}
	for _, wr := range provWraps {
		if !w.Take() {
			continue
		}
		for _, v := range provVals {
			if strings.Contains(wr, "abs(") && strings.HasPrefix(v, "(-") {
				continue
			}
			if strings.Contains(wr, "hostint(") && len(v) > 22 {
				continue
			}
			for _, y := range provYs {
				for _, op := range []string{"+", "-", "*", "/", "%"} {
					for _, left := range []bool{true, false} {
						w.State(1)
						w.Trans(1)
						w.Trace(1)
						w.Note("leg:provenance", 1)
						c := ProvCase{Wrap: wr, V: v, Op: op, Y: y, Left: left}
						w.Sample("provenance", c)
						c04Prov.Do(w, c)
					}
				}
			}
		}
	}
	// the integer-valued builtins (and integer parameters) on numbers of every magnitude, then ordinary
	// arithmetic whose exact result needs rounding: half-even to 34 digits, whatever ran before
	for _, pre := range []string{"floor(1e-100)", "ceil(-1e-90)", "toInt(1e-70)", "round(1e-100)", "roundBank(-1e-75)", "roundCash(1e-80, 2)", "left('abc', 1e-70)", "hi(1e-99)", "floor(2.5) + ceil(2.5) + toInt(-2.5)",
		"floor(-1e-100) + ceil(1e-100)", "1e-100 | 0", "~1e-100", "floor(1e100) + ceil(1e-7000)", "date(1e-70, 1, 1)", "round(0.5) + round(-0.5)", "toInt('1e-80')", "floor(0) + ceil(-0.0)", "floor(1e-64) + floor(1e-65) + floor(1e-66)"} {
		if !w.Take() {
			continue
		}
		for _, t := range [][3]string{{"2e0", "/", "3e0"}, {"(-2e0)", "/", "3e0"}, {"9999999999999999999999999999999999e0", "+", "6e-1"}, {"1e0", "-", "1e-40"}, {"1e0", "/", "7e0"}, {"(-1e0)", "+", "1e-40"},
			{"9999999999999999999999999999999999e0", "+", "5e-1"}, {"1000000000000000000000000000000001e0", "*", "15e-1"}, {"(-9999999999999999999999999999999999e0)", "-", "5e-1"}, {"5e0", "/", "6e0"}} {
			w.State(1)
			w.Trans(2)
			w.Trace(1)
			w.Note("leg:after-integer-builtins", 1)
			c := AfterCase{pre, t[0], t[1], t[2]}
			w.Sample("after-integer-builtins", c)
			c04After.Do(w, c)
		}
	}
	for _, h := range []string{"%s", "max(%s, %s)", "min(%s)", "+%s", "(t ? %s : 0)", "(t && %s)", "(%s ?? 1)", "(0 || %s)", "(%s)", "(0, %s)", "finite(%s)", "toFloat(%s)", "abs(%s)"} {
		if !w.Take() {
			continue
		}
		for _, v := range []string{"1e-1", "125e-1", "3e0", "1e-40", "9007199254740993e0", "1234567890123456789012345678901234e0", "5e70"} {
			for _, inData := range []bool{false, true} {
				w.State(1)
				w.Trans(1)
				w.Trace(1)
				w.Note("leg:shared-operand", 1)
				c := ShareCase{h, v, inData}
				w.Sample("shared-operand", c)
				c04Share.Do(w, c)
			}
		}
	}
	// data entry
	fs := dataFloats(q)
	for _, f := range fs {
		if !w.Take() {
			continue
		}
		w.State(1)
		w.Trans(1)
		w.Trace(1)
		w.Note("leg:data", 1)
		c04Data.Do(w, DataNumCase{Kind: "float64", F: f})
	}
	for _, i := range dataInts {
		for _, kind := range []string{"int", "int64", "int32"} {
			if !w.Take() {
				continue
			}
			if kind == "int32" && (i > math.MaxInt32 || i < math.MinInt32) {
				continue
			}
			w.State(1)
			w.Trans(1)
			w.Trace(1)
			w.Note("leg:data", 1)
			c := DataNumCase{Kind: kind, I: i}
			w.Sample("data", c)
			c04Data.Do(w, c)
		}
	}
	pf := fs
	if q && len(pf) > 300 {
		pf = pf[:300]
	}
	for _, a := range pf {
		if !w.Take() || w.Expired() {
			continue
		}
		for _, b := range pf {
			w.State(1)
			w.Trans(1)
			w.Trace(1)
			w.Note("leg:data-pairs", 1)
			c04Data.Do(w, DataNumCase{Kind: "float64", F: a, F2: b, Pair: true})
		}
	}
	// operands far outside the decimal128 exponent range (literals carry any exponent, so results must too):
	// groups of operands around a base exponent; + - % within a group, * and / also across groups
	farCoefs := []string{"1", "3", "7", "25", "125", strings.Repeat("9", 34), "1234567890123456789012345678901234", "5000000000000000000000000000000001", "18446744073709551617", "2"}
	deltas := []int{0, 1, -1, 33}
	bases := []int{6100, 6144, 6150, 7000, 99999, 123456789, 1000000000000000, -6100, -6143, -6176, -6180, -7000, -99999, -123456789, -1000000000000000}
	if q {
		farCoefs = farCoefs[:8]
		deltas = deltas[:2]
	}
	group := func(b int) []string {
		var g []string
		for _, c := range farCoefs {
			for _, d := range deltas {
				lit := c + "e" + strconv.Itoa(b+d)
				g = append(g, lit, "(-"+lit+")")
			}
		}
		return g
	}
	far := func(x, op, y string) {
		w.State(1)
		w.Trans(3)
		w.Trace(1)
		w.Note("leg:far-exponents", 1)
		c := ArithCase{x, op, y}
		w.Sample("far-exponents", c)
		c04Far.Do(w, c)
	}
	for bi, b := range bases {
		g := group(b)
		for _, x := range g {
			if !w.Take() || w.Expired() {
				continue
			}
			for _, y := range g {
				for _, op := range []string{"+", "-", "*", "/", "%"} {
					far(x, op, y)
				}
			}
			// across groups: the partner group with the opposite base, and the next one
			for _, ob := range []int{-b, bases[(bi+1)%len(bases)]} {
				for _, y := range group(ob)[:8] {
					far(x, "*", y)
					far(x, "/", y)
					far(x, "%", y)
				}
			}
			// remainders by and of ordinary numbers, any distance away
			for _, y := range []string{"7e0", "3e0", "(-7e0)", "1234567e0", "3e-3200", "999999999999999999999999999999999e0", "1e0", "25e-2", "64e0", "7e8190", "7e8193", "7e-8193"} {
				far(x, "%", y)
				far(y, "%", x)
			}
		}
	}
	_ = formula.NewRunner
}
