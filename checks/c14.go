package checks

import (
	"fmt"
	"strings"
	"unicode/utf8"

	formula "github.com/aundis/formula"

	"verif/internal/eng"
	"verif/internal/ref"
)

var c14Scan *eng.Kind[SrcCase]
var c14Space *eng.Kind[SpaceCase]
var c14CP *eng.Kind[CPCase]

// SpaceCase: one lexeme sequence, all joiner assignments are explored inside the judge.
type SpaceCase struct {
	Lexemes []string `json:"lexemes"`
	Reduced bool     `json:"reduced,omitempty"` // longer formulas: joiners {none, space, newline}, no edge trivia
}

// CPCase: a block of code points [From, To).
type CPCase struct {
	From int `json:"from"`
	To   int `json:"to"`
}

func init() {
	c := eng.Register(&eng.Check{
		ID:    "C14",
		Title: "Tokens tile the input; longest match; spacing is insignificant",
		Rule: "scanner driven directly over every byte string up to n bytes over 21 raw bytes and every concatenation of up to 3 lexemes with every joiner (none, space, tab, NBSP, newline) incl. leading/trailing: tiling invariants + token-by-token differential against an independent longest-match tokenizer up to the first lexical error; " +
			"metamorphic spacing oracle, also over every sequence of 4 (thorough: 5) lexemes of list, call and selection punctuation and over whole formulas including refused ones such as trailing commas (all joiner assignments that tokenize alike must parse alike, a line break before . !. ( may only turn acceptance into rejection); every code point 0..0x10FFFF for the four class predicates and through the scanner; distinct = distinct token-kind vectors / class vectors",
		TrustedBase: []string{"internal/ref/tok.go", "internal/ref/es5tables.go (pinned golden snapshot of the ES5 identifier tables)"},
		Assumptions: []string{"no independent ES5 table exists offline: table content is compared with a pinned snapshot, table lookup with a linear search of it", "U+200B counts as white space (the statement's ES sets are the TypeScript scanner's)"},
		Run:         runC14,
	})
	c14Scan = eng.NewKind(c, "scan", func(c SrcCase) *eng.Fail { return judgeScan(c.Src) })
	c14Space = eng.NewKind(c, "spacing", judgeSpacing)
	c14CP = eng.NewKind(c, "codepoints", judgeCP)
}

type implTok struct {
	kind            formula.SyntaxKind
	start, pos, end int
	lb              bool
	value           string
}

// driveScanner scans text with the real scanner and checks the tiling invariants.
func driveScanner(text []byte) (toks []implTok, errs int, firstErrAfterTok int, fail *eng.Fail) {
	firstErrAfterTok = -1
	var panicked interface{}
	func() {
		defer func() { panicked = recover() }()
		s := formula.CreateScanner(text, func(msg *formula.DiagnosticMessage, pos int, length int) {
			errs++
			if firstErrAfterTok < 0 {
				firstErrAfterTok = len(toks)
			}
		})
		prevEnd := 0
		for i := 0; i <= len(text)+1; i++ {
			k := s.Scan()
			t := implTok{kind: s.GetToken(), start: s.GetStartPos(), pos: s.GetTokenPos(), end: s.GetTextPos(), lb: s.HasPrecedingLineBreak(), value: s.GetTokenValue()}
			if k != t.kind {
				fail = eng.F("C14/scan-return", "token %d: Scan() returned kind %d but GetToken() is %d", i, int(k), int(t.kind))
				return
			}
			if t.start != prevEnd {
				fail = eng.F("C14/not-contiguous", "token %d starts at %d but the previous token ended at %d", i, t.start, prevEnd)
				return
			}
			if t.start > t.pos || t.pos > t.end || t.end > len(text) {
				fail = eng.F("C14/range-order", "token %d: start %d, token pos %d, end %d, len %d", i, t.start, t.pos, t.end, len(text))
				return
			}
			if !isTrivia(text[t.start:t.pos]) {
				fail = eng.F("C14/trivia", "token %d: bytes %q between start and token text are not white space", i, text[t.start:t.pos])
				return
			}
			toks = append(toks, t)
			if t.kind == formula.SK_EndOfFile {
				if t.end != len(text) || t.pos != len(text) {
					fail = eng.F("C14/eof", "end-of-file token at %d..%d but the text has %d bytes", t.pos, t.end, len(text))
				}
				return
			}
			if t.end <= t.pos {
				fail = eng.F("C14/no-progress", "token %d (kind %d) at %d does not advance", i, int(t.kind), t.pos)
				return
			}
			prevEnd = t.end
		}
		fail = eng.F("C14/no-eof", "scanner did not reach end of file within len+2 tokens")
	}()
	if panicked != nil {
		// a panic inside the scanner is an error report of its own kind (the parser converts it);
		// what was scanned before it is still judged
		errs++
		if firstErrAfterTok < 0 {
			firstErrAfterTok = len(toks)
		}
		fail = nil
	}
	return
}

func implKindClass(k formula.SyntaxKind) (ref.TK, string) {
	switch k {
	case formula.SK_EndOfFile:
		return ref.TEOF, ""
	case formula.SK_NumberLiteral:
		return ref.TNum, ""
	case formula.SK_StringLiteral:
		return ref.TStr, ""
	case formula.SK_Identifier:
		return ref.TIdent, ""
	case formula.SK_Unknown:
		return ref.TBad, ""
	}
	if s, ok := kwText[k]; ok {
		return ref.TKw, s
	}
	if s, ok := tokText[k]; ok {
		return ref.TOp, s
	}
	return ref.TBad, fmt.Sprintf("<kind %d>", int(k))
}

func judgeScan(text []byte) *eng.Fail {
	toks, errs, firstErrAt, fail := driveScanner(text)
	if fail != nil {
		return fail
	}
	rt := ref.Lex(text)
	errIdx, unsp := ref.FirstErr(rt)
	limit := len(rt)
	if errIdx >= 0 {
		limit = errIdx
	}
	var sig strings.Builder
	for i := 0; i < limit; i++ {
		r := rt[i]
		if i >= len(toks) {
			if firstErrAt >= 0 && firstErrAt <= i {
				break
			}
			return eng.F("C14/diff-missing", "reference token %d (%s %q at %d..%d) has no counterpart", i, r.K, r.Text, r.Pos, r.End)
		}
		t := toks[i]
		k, txt := implKindClass(t.kind)
		sig.WriteString(r.K.String())
		sig.WriteString(r.Text)
		sig.WriteByte(' ')
		if k != r.K || (r.K == ref.TOp || r.K == ref.TKw) && txt != r.Text {
			return eng.F("C14/diff-kind", "token %d: reference %s %q, implementation %s %q (at %d)", i, r.K, r.Text, k, txt, r.Pos)
		}
		if t.start != r.Start || t.pos != r.Pos || t.end != r.End {
			return eng.F("C14/diff-range", "token %d (%s %q): reference range %d/%d..%d, implementation %d/%d..%d", i, r.K, r.Text, r.Start, r.Pos, r.End, t.start, t.pos, t.end)
		}
		if t.lb != r.LB {
			return eng.F("C14/diff-linebreak", "token %d (%s %q at %d): preceding-line-break flag is %v, expected %v", i, r.K, r.Text, r.Pos, t.lb, r.LB)
		}
		if r.K == ref.TIdent && t.value != r.Text {
			return eng.F("C14/diff-ident", "token %d: identifier text %q, expected %q", i, t.value, r.Text)
		}
		if r.K == ref.TNum && !r.Err {
			dv, ok1 := ref.ParseDec(t.value)
			dr, ok2 := ref.ParseDec(r.Val)
			if ok2 && (!ok1 || !dv.Equal(dr)) {
				return eng.F("C14/diff-number", "token %d: number text %q does not denote %s", i, t.value, r.Val)
			}
		}
		if r.K == ref.TStr && !r.ValU && t.value != r.Val {
			return eng.F("C14/diff-string", "token %d: string value %q, expected %q", i, t.value, r.Val)
		}
	}
	outcome(sig.String())
	if unsp {
		note("unspecified_tail", 1)
		return nil
	}
	if errIdx < 0 && errs > 0 {
		return eng.F("C14/spurious-lex-error", "scanner reports a lexical error but the text is lexically well-formed")
	}
	if errIdx >= 0 && errs == 0 {
		r := rt[errIdx]
		return eng.F("C14/missed-lex-error", "lexical error in token %d (%s at %d..%d) not reported by the scanner", errIdx, r.K, r.Pos, r.End)
	}
	return nil
}

var spaceJoiners = []string{"", " ", "\t", "\u00A0", "\n"}
var edgeJoiners = []string{"", " ", "\n"}
var reducedJoiners = []string{"", " ", "\n"}

func tokSig(toks []ref.Tok) (string, string, bool) {
	var a, lb strings.Builder
	bad := false
	for _, t := range toks {
		if t.Err || t.Unsp {
			bad = true
		}
		a.WriteString(t.K.String())
		a.WriteByte(':')
		a.WriteString(t.Text)
		a.WriteByte(':')
		a.WriteString(t.Val)
		a.WriteByte(' ')
		if t.LB && t.K == ref.TOp && (t.Text == "." || t.Text == "!." || t.Text == "(") {
			lb.WriteByte('1')
		} else {
			lb.WriteByte('0')
		}
	}
	return a.String(), lb.String(), bad
}

func parseOutcome(text []byte) (string, *eng.Fail) {
	o := safeParse(text)
	if o.panicked {
		return "", eng.F("C14/panic", "parser panicked on %q: %s", text, o.panicMsg)
	}
	if o.err != nil {
		return "reject", nil
	}
	return implTree(o.src.Expression, nil).String(), nil
}

func judgeSpacing(c SpaceCase) *eng.Fail {
	k := len(c.Lexemes)
	if k == 0 {
		return nil
	}
	base := []byte(strings.Join(c.Lexemes, " "))
	baseSig, _, bad := tokSig(ref.Lex(base))
	if bad {
		return nil
	}
	baseOut, f := parseOutcome(base)
	if f != nil {
		return f
	}
	outcome(baseOut)
	var fail *eng.Fail
	variants := int64(0)
	gaps := make([]int, k+1) // gaps[0] leading, gaps[k] trailing
	var rec func(i int)
	rec = func(i int) {
		if fail != nil {
			return
		}
		if i == k+1 {
			var b []byte
			b = append(b, edgeJoiners[gaps[0]]...)
			for j, lx := range c.Lexemes {
				if j > 0 {
					if c.Reduced {
						b = append(b, reducedJoiners[gaps[j]]...)
					} else {
						b = append(b, spaceJoiners[gaps[j]]...)
					}
				}
				b = append(b, lx...)
			}
			b = append(b, edgeJoiners[gaps[k]]...)
			variants++
			vtoks := ref.Lex(b)
			sig, lb, bad := tokSig(vtoks)
			if bad || sig != baseSig {
				return // glued into different tokens: no constraint
			}
			out, f := parseOutcome(b)
			if f != nil {
				fail = f
				return
			}
			if out == baseOut && !strings.Contains(lb, "1") {
				return
			}
			if !strings.Contains(lb, "1") {
				fail = eng.F("C14/spacing-changes-parse", "same tokens, different parse:\n  %q -> %s\n  %q -> %s", base, baseOut, b, out)
				return
			}
			// a line break precedes a . !. or ( : the same-line rule decides; the reference parser
			// (which applies it to member access and calls only) gives the expected outcome
			rt, v := ref.ParseToks(vtoks)
			want := "reject"
			if v == ref.Accept {
				want = rt.String()
			}
			if v != ref.Unspecified && out != want {
				fail = eng.F("C14/linebreak-rule", "%q parses as %s; with the line break(s) in %q it must be %s, got %s", base, baseOut, b, want, out)
			}
			return
		}
		n := len(spaceJoiners)
		if i == 0 || i == k {
			n = len(edgeJoiners)
		}
		if c.Reduced {
			n = 1
			if i != 0 && i != k {
				n = 3
			}
		}
		for g := 0; g < n; g++ {
			gaps[i] = g
			rec(i + 1)
		}
	}
	rec(0)
	note("spacing_variants", variants)
	return fail
}

func judgeCP(c CPCase) *eng.Fail {
	for cp := rune(c.From); cp < rune(c.To); cp++ {
		ws, lb := ref.IsWS(cp), ref.IsLB(cp)
		st, pt := ref.IsIdStartLinear(cp), ref.IsIdPartLinear(cp)
		if cp < 0x80 {
			// ASCII white space / line breaks are handled by the scanner's switch, the
			// predicates must still agree
		}
		if formula.IsWhiteSpace(cp) != ws {
			return eng.F("C14/class-whitespace", "IsWhiteSpace(U+%04X) = %v, expected %v", cp, !ws, ws)
		}
		if formula.IsLineBreak(cp) != lb {
			return eng.F("C14/class-linebreak", "IsLineBreak(U+%04X) = %v, expected %v", cp, !lb, lb)
		}
		if formula.IsIdentifierStart(cp) != st {
			return eng.F("C14/class-idstart", "IsIdentifierStart(U+%04X) = %v, expected %v", cp, !st, st)
		}
		if formula.IsIdentifierPart(cp) != pt {
			return eng.F("C14/class-idpart", "IsIdentifierPart(U+%04X) = %v, expected %v", cp, !pt, pt)
		}
		outcome(fmt.Sprintf("%v%v%v%v", ws, lb, st, pt))
		if cp >= 0xD800 && cp <= 0xDFFF || !utf8.ValidRune(cp) {
			continue
		}
		// through the scanner: a<cp>b and <cp>a
		var buf [4]byte
		n := utf8.EncodeRune(buf[:], cp)
		enc := string(buf[:n])
		for _, s := range []string{"a" + enc + "b", enc + "a", "1" + enc} {
			if cp == '\\' || cp == '\'' || cp == '"' {
				continue
			}
			if f := judgeScan([]byte(s)); f != nil {
				f.Msg = fmt.Sprintf("U+%04X in %q: %s", cp, s, f.Msg)
				return f
			}
		}
	}
	return nil
}

func runC14(w *eng.W) {
	W = w
	q := w.Quick()
	do := func(leg string, src []byte) {
		w.State(1)
		w.Trans(1)
		w.Trace(1)
		w.Note("leg:"+leg, 1)
		w.Sample(leg, string(src))
		c14Scan.Do(w, SrcCase{Src: append(Bytes(nil), src...)})
	}
	// code points, in blocks of 4096
	for from := 0; from < 0x110000; from += 4096 {
		if !w.Take() {
			continue
		}
		w.State(4096)
		w.Trans(4096)
		w.Trace(4096 * 3)
		w.Note("leg:codepoints", 4096)
		c14CP.Do(w, CPCase{from, from + 4096})
	}
	w.Sample("codepoints", CPCase{0x2000, 0x3000})
	// spacing: lexeme sequences, joiner assignments inside the judge
	alpha := SigmaFull
	kmax := 3
	if q {
		alpha = SigmaClass
	}
	for l := 1; l <= kmax; l++ {
		seqsSharded(w, len(alpha), l, func(idx []int) {
			lex := make([]string, len(idx))
			for i, x := range idx {
				lex[i] = alpha[x]
			}
			w.State(1)
			w.Trans(1)
			w.Trace(1)
			w.Note("leg:spacing", 1)
			w.Sample("spacing", lex)
			c14Space.Do(w, SpaceCase{Lexemes: lex})
		})
	}
	// longer sequences over the punctuation of lists, calls and selections (refused and accepted alike),
	// with nothing / space / newline at every inner gap
	listAlpha := []string{"a", "1", ",", "(", ")", "[", "]", "...", ".", "+", "?", ":"}
	lmax := 4
	if !q {
		lmax = 5
	}
	for l := 4; l <= lmax; l++ {
		seqsSharded(w, len(listAlpha), l, func(idx []int) {
			lex := make([]string, len(idx))
			for i, x := range idx {
				lex[i] = listAlpha[x]
			}
			w.State(1)
			w.Trans(1)
			w.Trace(1)
			w.Note("leg:spacing-lists", 1)
			c := SpaceCase{Lexemes: lex, Reduced: true}
			w.Sample("spacing-lists", c)
			c14Space.Do(w, c)
		})
	}
	// whole formulas: every placement of nothing / space / newline between their tokens
	formulas := []string{"[ 1 , ]", "f ( a , )", "f ( a , b , )", "[ a , b , ]", "f ( a , ... )", "f ( a ... , )", "[ , 1 ]", "[ 1 , , 2 ]", "f ( )", "[ ]", "a ? b :", "( a , )", "f ( a b )", "[ 1 2 ]", "f ( g ( a , ) )", "[ [ 1 , ] ]", "f ( [ a , ] , b )", "x ? [ 1 , ] : 2",
		"a . b + c", "a !. b ( 1 )", "f ( a . b , c )", "a . b . c", "a . b ? 1 : 2", "[ a . b , - c ]", "typeof a . b", "a . b ( c ) . d", "$x = a . b , $x", "! a . true", "( a . b ) * 2", "a ?? b . c", "f ( xs ... )", "a . b == 'c'"}
	for _, fm := range formulas {
		if !w.Take() {
			continue
		}
		lex := strings.Fields(fm)
		w.State(1)
		w.Trans(1)
		w.Trace(1)
		w.Note("leg:spacing-formulas", 1)
		c := SpaceCase{Lexemes: lex, Reduced: true}
		w.Sample("spacing-formulas", c)
		c14Space.Do(w, c)
	}
	// word boundaries: every keyword (and look-alikes) continued by identifier-part characters of every
	// class, by characters that end a word, and by bytes that are no character at all
	conts := []string{"", "x", "1", "$", "_", "é", "中", "\u0301", "\u200c", "\u0660", " ", "\u00a0", ".", "(", "\x00", "\xff", "\u2028", "!"}
	for _, word := range []string{"null", "true", "false", "this", "ctx", "typeof", "a", "$x", "nul", "Null", "typeo"} {
		if !w.Take() {
			continue
		}
		for _, c1 := range conts {
			for _, c2 := range conts {
				for _, ctx := range []string{"%s", "%s + 1", "a.%s", "typeof %s", "[%s, %s]"} {
					do("word-boundaries", []byte(strings.Replace(ctx, "%s", word+c1+c2, -1)))
				}
			}
		}
	}
	// long runs of blanks in front of a word (deep indentation): how much white space precedes a token does
	// not decide what the token is
	for _, word := range []string{"null", "true", "false", "this", "ctx", "typeof", "a", "$x", "typeo", "nulls", "1", "'s'", "..."} {
		if !w.Take() {
			continue
		}
		var pads []string
		for n := 0; n <= 20; n++ {
			pads = append(pads, strings.Repeat(" ", n), strings.Repeat("\t", n), "\n"+strings.Repeat(" ", n), strings.Repeat("\u3000", n), strings.Repeat("\r\n", n))
		}
		pads = append(pads, strings.Repeat(" ", 64), strings.Repeat(" ", 255), strings.Repeat(" \t", 130), strings.Repeat("\u00a0", 40))
		for _, pad := range pads {
			for _, ctx := range []string{"%s", "%s x", "a +%s", "[a,%s]", "f(%s)", "a ?%s : b"} {
				do("long-trivia", []byte(strings.Replace(ctx, "%s", pad+word, 1)))
			}
		}
	}
	neighbourTexts(w, "neighbour-code-points", do)
	// scanner differential on glued lexemes (no separator at all) and on raw bytes
	for l := 1; l <= 3; l++ {
		seqsSharded(w, len(SigmaFull), l, func(idx []int) {
			do("glued-lexemes", joinIdx(SigmaFull, idx, ""))
		})
	}
	gapSeqs(w, "lexeme-gaps", SigmaClass, []string{"", " ", "\t", "\u00A0", "\n", "\r\n", "\u2028", "\u3000", "\uFEFF"}, 3, do)
	n := 4
	if !q {
		n = 6
	}
	byteStrings(w, "bytes", n, do)
}
