package checks

import (
	"fmt"
	"sort"
	"strings"

	formula "github.com/aundis/formula"

	"verif/internal/eng"
	"verif/internal/ref"
)

// SeqCase: an analysis that fails part-way, followed by an ordinary one.
type SeqCase struct {
	First  string `json:"first"`
	Second string `json:"second"`
}

var c10Seq *eng.Kind[SeqCase]
var c10Fields *eng.Kind[SrcCase]

func init() {
	c := eng.Register(&eng.Check{
		ID:          "C10",
		Title:       "Referenced-field analysis is exact and sufficient",
		Rule:        "every formula up to n AST nodes over names {a, b, $l}, paths (a.b, a.b.c, a!.b, $l.x, a.true), calls (f(..), m.f(..), len(..), with spread, nested), assignment, conditional, array, typeof, parentheses, prefix and binary operators, plus the shapes the analysis must refuse ((a).b, f(a).b, 's'.b, this.b, [a].b): the reported list is compared with a collector that walks the independently parsed reference tree (required subset of reported subset of required + assignment targets, no duplicates, refusal exactly where a selector base is not a name/path, non-local variant); sufficiency by evaluating on full data maps and on the maps restricted / perturbed outside the reported names; distinct = distinct reported sets",
		TrustedBase: []string{"internal/ref/parse.go", "reference field collector in checks/c10.go"},
		Assumptions: []string{"whether a pure assignment target counts as read is not fixed: both readings pass", "call-on-call and non-path callees are not generated (statement silent)"},
		Run:         runC10,
	})
	c10Fields = eng.NewKind(c, "fields", func(c SrcCase) *eng.Fail { return judgeFields(string(c.Src)) })
	c10Seq = eng.NewKind(c, "after-refusal", func(c SeqCase) *eng.Fail {
		// the first analysis may fail or succeed; its outcome must not leak into the second
		if p := safeParse([]byte(c.First)); !p.panicked && p.err == nil {
			func() {
				defer func() { recover() }()
				formula.ResolveReferenceFields(p.src)
				formula.ResolveReferenceFieldsNotLocal(p.src)
			}()
		}
		if f := judgeFields(c.Second); f != nil {
			f.Msg = "after analysing " + c.First + ": " + f.Msg
			return f
		}
		return nil
	})
}

// pathOf returns the dotted path of a name / selector chain, ok=false for other nodes.
func pathOf(n *ref.N) (string, bool) {
	switch n.K {
	case "id":
		return n.Val, true
	case "sel":
		b, ok := pathOf(n.Kids[0])
		if !ok {
			return "", false
		}
		return b + "." + n.Op, true
	}
	return "", false
}

type fieldSpec struct {
	required map[string]bool
	targets  map[string]bool
	called   map[string]bool // top-level names in callee position
	refuse   bool
	usesThis bool
}

func collect(n *ref.N, fs *fieldSpec) {
	switch n.K {
	case "id":
		fs.required[n.Val] = true
	case "sel":
		p, ok := pathOf(n)
		if !ok {
			fs.refuse = true
			// the base is still walked: it may read names
			collectAny(n.Kids[0], fs)
			return
		}
		fs.required[p] = true
	case "call":
		if p, ok := pathOf(n.Kids[0]); ok {
			fs.called[strings.SplitN(p, ".", 2)[0]] = true
		}
		for _, k := range n.Kids[1:] {
			collect(k, fs)
		}
	case "bin":
		if n.Op == "=" && n.Kids[0].K == "id" {
			fs.targets[n.Kids[0].Val] = true
			collect(n.Kids[1], fs)
			return
		}
		collect(n.Kids[0], fs)
		collect(n.Kids[1], fs)
	case "lit":
		if n.Op == "this" {
			fs.usesThis = true
		}
	default:
		for _, k := range n.Kids {
			collect(k, fs)
		}
	}
}

func collectAny(n *ref.N, fs *fieldSpec) {
	// inside a refused base: note `this`, nothing else is judged
	ref.Walk(n, func(x *ref.N) {
		if x.K == "lit" && x.Op == "this" {
			fs.usesThis = true
		}
	})
}

var recCalls []string

func c10Data(variant int) map[string]interface{} {
	f := func(xs ...interface{}) (interface{}, error) {
		recCalls = append(recCalls, fmt.Sprint("f", len(xs)))
		return float64(len(xs) + variant), nil
	}
	mf := func(xs ...interface{}) (interface{}, error) { return "mf", nil }
	return map[string]interface{}{
		"a":  map[string]interface{}{"b": map[string]interface{}{"c": 5.0 + float64(variant)}, "true": 8.0, "x": "ax"},
		"b":  3.0 + float64(variant),
		"$l": map[string]interface{}{"x": 9.0, "b": "lb"},
		"f":  f,
		"m":  map[string]interface{}{"f": mf},
		"c":  "unrelated-c", "d": 4.0, "z": true,
		// top-level keys SPELLED like paths: no formula reads them (a.q is member q of a, here missing)
		"a.q": "flat-a.q", "a.b": "flat-a.b", "a.b.c": "flat-a.b.c", "$l.x": "flat-$l.x", "a.true": "flat",
	}
}

func evalShow(e formula.Expression, data map[string]interface{}) string {
	r := formula.NewRunner()
	r.SetThis(data)
	o := safeResolve(r, bg, e)
	if o.panicked {
		return "panic: " + o.panicMsg
	}
	if o.err != nil {
		return "error: " + o.err.Error()
	}
	return showDeep(o.val)
}

func showDeep(v interface{}) string {
	switch n := v.(type) {
	case map[string]interface{}:
		keys := make([]string, 0, len(n))
		for k := range n {
			keys = append(keys, k)
		}
		sort.Strings(keys)
		var b strings.Builder
		b.WriteString("{")
		for _, k := range keys {
			b.WriteString(k + ":" + showDeep(n[k]) + ",")
		}
		b.WriteString("}")
		return b.String()
	case []interface{}:
		parts := make([]string, len(n))
		for i, e := range n {
			parts[i] = showDeep(e)
		}
		return "[" + strings.Join(parts, ",") + "]"
	}
	return show(v)
}

func judgeFields(src string) *eng.Fail {
	rt, v := ref.Parse([]byte(src))
	if v != ref.Accept {
		return nil
	}
	p := safeParse([]byte(src))
	if p.panicked || p.err != nil {
		return eng.F("C10/parse", "%s: %v %s", src, p.err, p.panicMsg)
	}
	fs := &fieldSpec{required: map[string]bool{}, targets: map[string]bool{}, called: map[string]bool{}}
	collect(rt, fs)
	// a callee that is not a name or path (call on a call, call on a parenthesis ...) is outside
	// the statement: what counts as "read" inside it is not fixed
	oddCallee := false
	ref.Walk(rt, func(x *ref.N) {
		if x.K == "call" {
			if _, ok := pathOf(x.Kids[0]); !ok {
				oddCallee = true
			}
		}
	})
	if oddCallee {
		note("odd_callee_skipped", 1)
		return nil
	}
	var fields, nonLocal []string
	var err, err2 error
	var panicMsg string
	func() {
		defer func() {
			if r := recover(); r != nil {
				panicMsg = fmt.Sprint(r)
			}
		}()
		fields, err = formula.ResolveReferenceFields(p.src)
		nonLocal, err2 = formula.ResolveReferenceFieldsNotLocal(p.src)
	}()
	if panicMsg != "" {
		return eng.F("C10/panic", "%s: field analysis panicked: %s", src, panicMsg)
	}
	if fs.refuse {
		outcome("refuse")
		if err == nil || err2 == nil {
			return eng.F("C10/missing-refusal", "%s: member access on something that is neither a name nor a path must be refused, got %v", src, fields)
		}
		return nil
	}
	if err != nil || err2 != nil {
		return eng.F("C10/unexpected-refusal", "%s: analysis failed: %v %v", src, err, err2)
	}
	seen := map[string]bool{}
	for _, f := range fields {
		if seen[f] {
			return eng.F("C10/duplicate", "%s: field %q reported twice in %v", src, f, fields)
		}
		seen[f] = true
		if !fs.required[f] && !fs.targets[f] {
			return eng.F("C10/extra-field", "%s: reports %q which is neither read as a value nor an assignment target (reported %v)", src, f, fields)
		}
	}
	for r := range fs.required {
		if !seen[r] {
			return eng.F("C10/missing-field", "%s: does not report %q (reported %v)", src, r, fields)
		}
	}
	nl := map[string]bool{}
	for _, f := range nonLocal {
		if nl[f] {
			return eng.F("C10/duplicate", "%s: non-local field %q reported twice", src, f)
		}
		nl[f] = true
		if strings.HasPrefix(f, "$") || !seen[f] {
			return eng.F("C10/non-local", "%s: non-local variant reports %q (all fields %v)", src, f, fields)
		}
	}
	for f := range seen {
		if !strings.HasPrefix(f, "$") && !nl[f] {
			return eng.F("C10/non-local", "%s: non-local variant misses %q (got %v)", src, f, nonLocal)
		}
	}
	sorted := append([]string(nil), fields...)
	sort.Strings(sorted)
	outcome(strings.Join(sorted, "|"))
	if fs.usesThis {
		return nil
	}
	// sufficiency
	keep := map[string]bool{}
	for f := range seen {
		keep[strings.SplitN(f, ".", 2)[0]] = true
	}
	for c := range fs.called {
		keep[c] = true
	}
	for variant := 0; variant < 3; variant++ {
		full := c10Data(variant)
		restricted := c10Data(variant)
		perturbed := c10Data(variant)
		if variant == 2 {
			// no pre-set local: what the formula reads from $l is what it bound itself (or null)
			delete(full, "$l")
			delete(restricted, "$l")
			delete(perturbed, "$l")
		}
		want := evalShow(p.src.Expression, full)
		for k := range restricted {
			if !keep[k] {
				delete(restricted, k)
				perturbed[k] = "perturbed-" + k
			}
		}
		if got := evalShow(p.src.Expression, restricted); got != want {
			return eng.F("C10/insufficient", "%s: reported %v (+called %v) but restricting the data to those names changes the result: %s vs %s", src, fields, keysOf(fs.called), want, got)
		}
		if got := evalShow(p.src.Expression, perturbed); got != want {
			return eng.F("C10/insufficient", "%s: reported %v but changing other names changes the result: %s vs %s", src, fields, want, got)
		}
		if len(restricted) == 0 {
			// no reported name is present at all: a runner that never received a data map (after another such
			// runner has bound the locals this formula mentions) agrees on every reported field as well
			other := formula.NewRunner()
			if pre, err := cachedParse("$l = 'stale', $b = 'stale', $t = 'stale', $T = 'stale'"); err == nil {
				safeResolve(other, bg, pre.Expression)
			}
			bare := formula.NewRunner()
			o := safeResolve(bare, bg, p.src.Expression)
			got := ""
			switch {
			case o.panicked:
				got = "panic: " + o.panicMsg
			case o.err != nil:
				got = "error: " + o.err.Error()
			default:
				got = showDeep(o.val)
			}
			if got != want {
				return eng.F("C10/insufficient", "%s: reported %v, none of them present: a runner without data map gives %s, a runner with an empty-equivalent map %s", src, fields, got, want)
			}
		}
	}
	return nil
}

func keysOf(m map[string]bool) []string {
	var k []string
	for s := range m {
		k = append(k, s)
	}
	sort.Strings(k)
	return k
}

// c10Gen generates formulas by node count.
type c10Gen struct {
	memo map[int][]string
}

var c10Atoms = []string{"a", "b", "$l", "1", "a.b", "a.b.c", "a!.b", "$l.x", "a.true", "'s'", "this", "c", "a.q"}
var c10Refusals = []string{"(a).b", "f(a).b", "'s'.b", "this.b", "[a].b", "(a.b).c", "a.b(1).c"}

func (g *c10Gen) gen(n int) []string {
	if r, ok := g.memo[n]; ok {
		return r
	}
	var out []string
	if n == 1 {
		out = append(out, c10Atoms...)
		out = append(out, "[]", "f()")
	}
	if n == 2 {
		out = append(out, c10Refusals...)
	}
	if n >= 2 {
		for _, e := range g.gen(n - 1) {
			out = append(out, "-"+wrap(e), "typeof "+wrap(e), "("+e+")", "!"+wrap(e), "$l = "+e, "["+e+"]", "f("+e+")", "m.f("+e+")", "len("+e+")", "f("+e+"...)")
		}
	}
	if n >= 3 {
		for i := 1; i <= n-2; i++ {
			for _, x := range g.gen(i) {
				for _, y := range g.gen(n - 1 - i) {
					out = append(out, wrap(x)+" + "+wrap(y), wrap(x)+" && "+wrap(y), wrap(x)+" , "+wrap(y), "["+x+", "+y+"]", "f("+x+", "+y+")", "f("+x+", "+y+"...)", "$b = "+x+", "+y)
				}
			}
		}
	}
	if n >= 4 {
		for i := 1; i <= n-3; i++ {
			for j := 1; i+j <= n-2; j++ {
				k := n - 1 - i - j
				for _, x := range g.gen(i) {
					for _, y := range g.gen(j) {
						for _, z := range g.gen(k) {
							out = append(out, wrap(x)+" ? "+wrap(y)+" : "+wrap(z))
						}
					}
				}
			}
		}
	}
	g.memo[n] = out
	return out
}

func wrap(e string) string {
	if strings.ContainsAny(e, " ") && !(strings.HasPrefix(e, "(") && strings.HasSuffix(e, ")") && balancedOuter(e)) {
		return "(" + e + ")"
	}
	return e
}

func balancedOuter(e string) bool {
	depth := 0
	for i, c := range e {
		if c == '(' {
			depth++
		} else if c == ')' {
			depth--
			if depth == 0 && i != len(e)-1 {
				return false
			}
		}
	}
	return true
}

func runC10(w *eng.W) {
	W = w
	g := &c10Gen{memo: map[int][]string{}}
	max := 4
	if !w.Quick() {
		max = 5
	}
	for n := 1; n <= max; n++ {
		list := g.gen(n)
		w.Note(fmt.Sprintf("formulas_with_%d_nodes", n), 0)
		for _, src := range list {
			if !w.Take() {
				continue
			}
			if w.Expired() {
				break
			}
			w.State(1)
			w.Trans(1)
			w.Trace(1)
			w.Note(fmt.Sprintf("formulas_with_%d_nodes", n), 1)
			w.Sample("formulas", src)
			c10Fields.Do(w, SrcCase{Src: Bytes(src)})
		}
	}
	// name sets: sums of names that repeat, differ only in case, or are prefixes of each other, in every order
	names := []string{"Total", "total", "TOTAL", "a", "A", "ab", "a.b", "a.B", "$t", "$T", "a.b.c", "Total.x", "__r", "___r", "_r", "a.__b", "__r.__b", "$__l", "$", "$$", "$.a", "$1"}
	for l := 1; l <= 4; l++ {
		seqsSharded(w, len(names), l, func(idx []int) {
			src := joinIdx(names, idx, " + ")
			w.State(1)
			w.Trans(1)
			w.Trace(1)
			w.Note("leg:name-sets", 1)
			w.Sample("name-sets", string(src))
			c10Fields.Do(w, SrcCase{Src: append(Bytes(nil), src...)})
		})
	}
	// many names with repeats: n distinct names (1..12, every fourth a path) in a sum, with two more
	// occurrences of any of them inserted at every pair of places - "without duplicates" whatever the
	// number of distinct names and wherever the repeats stand
	for n := 1; n <= 12; n++ {
		base := make([]string, n)
		for i := range base {
			base[i] = fmt.Sprintf("g%d", i)
			if i%4 == 3 {
				base[i] += ".p"
			}
		}
		for x1 := 0; x1 < n; x1++ {
			if !w.Take() {
				continue
			}
			for p1 := 0; p1 <= n; p1++ {
				one := append(append(append([]string{}, base[:p1]...), base[x1]), base[p1:]...)
				for x2 := 0; x2 < n; x2++ {
					for p2 := p1 + 1; p2 <= n+1; p2++ {
						two := append(append(append([]string{}, one[:p2]...), base[x2]), one[p2:]...)
						src := strings.Join(two, " + ")
						w.State(1)
						w.Trans(1)
						w.Trace(1)
						w.Note("leg:many-names-with-repeats", 1)
						w.Sample("many-names-with-repeats", src)
						c10Fields.Do(w, SrcCase{Src: Bytes(src)})
					}
				}
			}
		}
	}
	// long formulas: a flat chain of N operands is a tree N levels deep; the analysis reports every one of
	// the N names, however long the chain (so do ladders of conditionals, nested brackets and nested calls)
	for _, n := range []int{40, 1001, 1200, 3000} {
		if w.Quick() && n > 1200 {
			continue
		}
		name := func(i int) string {
			if i%7 == 3 {
				return fmt.Sprintf("rec%d.part", i)
			}
			return fmt.Sprintf("f%d", i)
		}
		var shapes []string
		for _, op := range []string{" + ", " && ", " || ", " ?? ", ", ", " * ", " == "} {
			var b strings.Builder
			for i := 0; i < n; i++ {
				if i > 0 {
					b.WriteString(op)
				}
				b.WriteString(name(i))
			}
			shapes = append(shapes, b.String())
		}
		var lad, par, arr, call, un strings.Builder
		for i := 0; i < n; i++ {
			fmt.Fprintf(&lad, "%s ? %s : ", name(2*i), name(2*i+1))
			par.WriteString("(")
			arr.WriteString("[" + name(i) + ", ")
			call.WriteString("f(" + name(i) + ", ")
			un.WriteString([]string{"-", "!", "~", "+"}[i%4] + " ")
		}
		lad.WriteString("last")
		par.WriteString("innermost" + strings.Repeat(")", n))
		arr.WriteString("innermost" + strings.Repeat("]", n))
		call.WriteString("innermost" + strings.Repeat(")", n))
		un.WriteString("operand")
		shapes = append(shapes, lad.String(), par.String(), arr.String(), call.String(), un.String())
		for _, src := range shapes {
			if !w.Take() {
				continue
			}
			w.State(1)
			w.Trans(1)
			w.Trace(1)
			w.Note("leg:long-formulas", 1)
			c10Fields.Do(w, SrcCase{Src: Bytes(src)})
		}
	}
	// an analysis that is refused part-way (names already collected) followed by an ordinary one
	firsts := []string{"leaked + other.path + this.b", "a + (b).c", "[first, (second).k, third]", "f(x, (y).z)", "$l = q, 's'.b", "p ? q : [r].s", "typeof u, f(v).w", "ok1 + ok2"}
	seconds := []string{"x + y.z", "1", "$l", "f(a)", "[a, b.c, $l.x]", "a ? b : c"}
	for _, fst := range firsts {
		if !w.Take() {
			continue
		}
		for _, snd := range seconds {
			for rep := 0; rep < 3; rep++ {
				w.State(1)
				w.Trans(2)
				w.Trace(1)
				w.Note("after_refusal", 1)
				c := SeqCase{fst, snd}
				w.Sample("after-refusal", c)
				c10Seq.Do(w, c)
			}
		}
	}
	// token-level leg: every accepted token sequence over the analysis alphabet
	alpha := strings.Fields("a b $l x f this . !. ( ) [ ] , ? : = typeof - + ...")
	k := 5
	for l := 1; l <= k; l++ {
		seqsSharded(w, len(alpha), l, func(idx []int) {
			src := joinIdx(alpha, idx, " ")
			if _, v := ref.Parse(src); v != ref.Accept {
				return
			}
			w.State(1)
			w.Trans(1)
			w.Trace(1)
			w.Note("accepted_token_sequences", 1)
			w.Sample("token-seq", string(src))
			c10Fields.Do(w, SrcCase{Src: append(Bytes(nil), src...)})
		})
	}
}
