package checks

import (
	"fmt"
	formula "github.com/aundis/formula"
	"github.com/ericlagergren/decimal"
	"math"
	"strings"

	"verif/internal/eng"
	"verif/internal/ref"
)

// gval is one member of the comparison grid.
type gval struct {
	Expr string
	Kind string // num | numx (non-finite) | str | bool | null
	Num  ref.Dec
	Str  string
	Bool bool
}

// CmpCase: indices into the grid (the grid is deterministic).
type CmpCase struct {
	I int    `json:"i"`
	J int    `json:"j"`
	A string `json:"a"`
	B string `json:"b"`
}

var c05Cmp *eng.Kind[CmpCase]

func init() {
	c := eng.Register(&eng.Check{
		ID:          "C05",
		Title:       "Ordering and equality are lawful and representation-independent",
		Rule:        "value grid: 205 number spellings (coefficient -20..20 x exponent -2..2), special numbers (-0, 0.0, 34-digit values, 1e30, 1e-30, results of arithmetic, values from the data map, infinities), 18 strings (empty, ASCII, multi-byte, invalid UTF-8), booleans, three kinds of null; every ordered pair is evaluated under all eight operators in one formula and the eight results are judged against the laws of the statement and the exact numeric / byte-wise order; distinct = distinct result vectors",
		TrustedBase: []string{"internal/ref/dec.go exact comparison", "Go string comparison (byte-wise)"},
		Assumptions: []string{"mixed-kind < and == are only subject to the negation laws", "NaN is not in the grid (the order clause is about finite numbers)"},
		Run:         runC05,
		Workers:     1, // one process: a memo keyed too coarsely must meet its colliding pair
	})
	c05Cmp = eng.NewKind(c, "cmp", judgeCmp)
	c05Triple = eng.NewKind(c, "triple", judgeTriple)
}

var cmpGrid []gval
var cmpData map[string]interface{}

func buildCmpGrid() {
	if cmpGrid != nil {
		return
	}
	cmpData = map[string]interface{}{}
	num := func(expr, val string) {
		d, ok := ref.ParseDec(val)
		if !ok {
			panic("harness: " + val)
		}
		cmpGrid = append(cmpGrid, gval{Expr: expr, Kind: "num", Num: d})
	}
	for c := -20; c <= 20; c++ {
		for e := -2; e <= 2; e++ {
			lit := fmt.Sprintf("%de%d", abs(c), e)
			if c < 0 {
				num("(-"+lit+")", "-"+lit)
			} else {
				num(lit, lit)
			}
		}
	}
	num("(-0)", "-0")
	num("0.0", "0.0")
	num("1.0", "1")
	num("1.10", "1.1")
	num("10e-1", "1")
	num("0.1e1", "1")
	num("9999999999999999999999999999999999", "9999999999999999999999999999999999")
	num("9999999999999999999999999999999998", "9999999999999999999999999999999998")
	num("1e30", "1e30")
	num("1e-30", "1e-30")
	num("1000000000000000000000000000000.0", "1e30")
	num("(0.1+0.2)", "0.3")
	num("0.3", "0.3")
	num("0.30000000000000004", "0.30000000000000004")
	num("(1/3)", "0.3333333333333333333333333333333333")
	num("(2/3-1/3)", "0.3333333333333333333333333333333334")
	num("(1/4)", "0.25")
	num("(10/4)", "2.5")
	num("(7%4)", "3")
	num("(2*0.5)", "1")
	cmpData["d01"] = 0.1
	num("d01", "0.1")
	cmpData["d1"] = 1.0
	num("d1", "1")
	cmpData["di"] = int64(20)
	num("di", "20")
	cmpData["du8"] = uint8(20)
	num("du8", "20")
	cmpData["di16"] = int16(-2)
	num("di16", "-2")
	cmpData["du64"] = uint64(9007199254740993)
	num("du64", "9007199254740993")
	cmpData["du63"] = uint64(1) << 63
	num("du63", "9223372036854775808")
	cmpData["dumax"] = uint(math.MaxUint64)
	num("dumax", "18446744073709551615")
	num("9223372036854775808", "9223372036854775808")
	// negative numbers of 17 to 34 digits (a negative number can only be written with unary minus)
	num("(-12345678901234567)", "-12345678901234567")
	num("(-12345678901234566)", "-12345678901234566")
	num("(0 - 12345678901234567)", "-12345678901234567")
	num("(-1.0000000000000000000001)", "-1.0000000000000000000001")
	num("(-1234567890123456789012345678901234)", "-1234567890123456789012345678901234")
	cmpData["dup"] = uintptr(7)
	num("dup", "7")
	cmpData["dbig"] = int64(9007199254740993)
	num("dbig", "9007199254740993")
	num("9007199254740993", "9007199254740993")
	num("9007199254740992", "9007199254740992")
	// zeros produced by arithmetic (may carry a sign), plain spellings that coincide with string literals below
	for _, z := range []string{"(0 * -1)", "(0 / -5)", "((1 - 1) * -3)", "(-1 * 0.0)", "round(-0.4)", "toInt(-0.5)", "(-0.0)", "(0 % -3)", "(-0 - 0)"} {
		num(z, "0")
	}
	cmpData["dnegzero"] = math.Copysign(0, -1)
	num("dnegzero", "0")
	num("1_0e-1", "1")
	num("1_0e+1", "100")
	num("1_000e-3", "1")
	num("2_5E-1", "2.5")
	// far outside the decimal128 exponent range, both signs, also as results of negation and arithmetic
	for _, l := range []string{"1e7000", "1e6999", "10e6999", "1e6145", "9e6144", "1e-7000", "1e-6999", "1e-6177", "1e123456789", "1e-123456789", "25e123456788"} {
		num(l, l)
		num("(-"+l+")", "-"+l)
	}
	num("(1e7000 * 1)", "1e7000")
	num("(0 - 1e7000)", "-1e7000")
	num("(1e3500 * 1e3500)", "1e7000")
	num("(1e-3500 * 1e-3500)", "1e-7000")
	num("(1e7000 / 10)", "1e6999")
	// leading zeros are insignificant, also when the digits that follow would be octal digits
	num("010", "10")
	num("0010.0", "10")
	num("007", "7")
	num("0100", "100")
	num("0777", "777")
	num("08", "8")
	num("00.50", "0.5")
	cmpData["s010"] = "010"
	num("1", "1")
	num("10", "10")
	num("9", "9")
	num("1e0", "1")
	// literals of 35 and more significant digits that differ only beyond the 34th: a literal is the number written
	for _, l := range []string{"10000000000000000000000000000000000001", "10000000000000000000000000000000000000", "1.0000000000000000000000000000000000001", "0.99999999999999999999999999999999999999",
		"123456789012345678901234567890123456", "123456789012345678901234567890123457", "99999999999999999999999999999999995", "99999999999999999999999999999999994", "1e37", "1.00000000000000000000000000000000000010"} {
		num(l, l)
	}
	// numbers read back from a local: the number that was bound, digit for digit
	num("($g1 = 12345678901234567891, $g1)", "12345678901234567891")
	num("($g2 = 1/3, $g2)", "0.3333333333333333333333333333333333")
	num("($g3 = 9007199254740993, $g3)", "9007199254740993")
	num("($g4 = 1e400, $g4)", "1e400")
	num("($g5 = 0.1, $g5 + 0)", "0.1")
	cmpGrid = append(cmpGrid, gval{Expr: "(1/0)", Kind: "numx"}, gval{Expr: "(-1/0)", Kind: "numx"})
	// NaN from several sources: whatever it equals, it does not equal a finite number
	cmpData["dnan"] = math.NaN()
	cmpGrid = append(cmpGrid, gval{Expr: "(0/0)", Kind: "numx"}, gval{Expr: "sqrt(-1)", Kind: "numx"}, gval{Expr: "dnan", Kind: "numx"}, gval{Expr: "toFloat('x')", Kind: "numx"}, gval{Expr: "($nn = 0/0)", Kind: "numx"})
	strs := []string{"", "a", "b", "ab", "a ", "A", "1", "10", "9", "é", "中", "aa", " ", "1.0", "true", "null", "b\x00", "\xff",
		// bytes that are not valid UTF-8 (byte order, not the order of the characters they would decode to), the real U+FFFD, U+10000
		"\x80", "\xfe1", "\xff0", "\xc3", "\xef\xbf\xbd", "\xf0\x90\x80\x80", "a\x80", "a\xc3\xa9"}
	for i, s := range strs {
		name := fmt.Sprintf("s%d", i)
		cmpData[name] = s
		cmpGrid = append(cmpGrid, gval{Expr: name, Kind: "str", Str: s})
	}
	for _, lit := range []string{"1", "10", "9", "1.0", "1e0", "0", "true", "null"} {
		cmpGrid = append(cmpGrid, gval{Expr: "'" + lit + "'", Kind: "str", Str: lit})
	}
	cmpGrid = append(cmpGrid, gval{Expr: "'a'", Kind: "str", Str: "a"}, gval{Expr: "\"ab\"", Kind: "str", Str: "ab"}, gval{Expr: "('a'+'b')", Kind: "str", Str: "ab"})
	cmpGrid = append(cmpGrid, gval{Expr: "true", Kind: "bool", Bool: true}, gval{Expr: "false", Kind: "bool", Bool: false}, gval{Expr: "(1<2)", Kind: "bool", Bool: true})
	var ip *int
	cmpData["nil1"] = nil
	cmpData["nilp"] = ip
	cmpGrid = append(cmpGrid, gval{Expr: "null", Kind: "null"}, gval{Expr: "nil1", Kind: "null"}, gval{Expr: "nilp", Kind: "null"}, gval{Expr: "missing", Kind: "null"})
	// nulls that are the result of a host function: untyped nil, a typed nil pointer, a nil number
	cmpData["hnil"] = func() (interface{}, error) { return nil, nil }
	cmpData["hnp"] = func() (*int, error) { return nil, nil }
	cmpData["hnd"] = func() (*decimal.Big, error) { return nil, nil }
	cmpData["hni"] = func() (interface{}, error) { return (*decimal.Big)(nil), nil }
	cmpData["nild"] = (*decimal.Big)(nil)
	cmpGrid = append(cmpGrid, gval{Expr: "hnil()", Kind: "null"}, gval{Expr: "hnp()", Kind: "null"}, gval{Expr: "hnd()", Kind: "null"}, gval{Expr: "hni()", Kind: "null"}, gval{Expr: "nild", Kind: "null"}, gval{Expr: "this.nild", Kind: "null"})
}

func abs(x int) int {
	if x < 0 {
		return -x
	}
	return x
}

var cmpOps = []string{"<", "==", ">", "<=", ">=", "===", "!=", "!=="}

func judgeCmp(c CmpCase) *eng.Fail {
	buildCmpGrid()
	if c.I >= len(cmpGrid) || c.J >= len(cmpGrid) {
		return eng.F("harness/grid-index", "grid index out of range")
	}
	a, b := cmpGrid[c.I], cmpGrid[c.J]
	parts := make([]string, len(cmpOps))
	for i, op := range cmpOps {
		parts[i] = a.Expr + " " + op + " " + b.Expr
	}
	src := "[" + strings.Join(parts, ", ") + "]"
	o, perr := evalSrc(src, cmpData)
	if perr != nil {
		return eng.F("C05/parse", "%s: %v", src, perr)
	}
	// the same comparisons by a runner whose previous equality tests failed (arrays and maps cannot be
	// compared): the operators have no memory
	if p2, err2 := cachedParse(src); err2 == nil {
		r := formula.NewRunner()
		r.SetThis(cmpData)
		for _, bad := range []string{"[1] == [1]", "this != this", "[1] === ['1']", "[[1] < [2]]"} {
			if pb, err := cachedParse(bad); err == nil {
				safeResolve(r, bg, pb.Expression)
			}
		}
		// (strict operators first: a successful loose comparison in between could hide a leftover)
		strict := "[" + a.Expr + " === " + b.Expr + ", " + a.Expr + " !== " + b.Expr + "]"
		if ps, err := cachedParse(strict); err == nil {
			os := safeResolve(r, bg, ps.Expression)
			if arr, _ := os.val.([]interface{}); !os.panicked && os.err == nil && len(arr) == 2 && o.err == nil {
				if full, _ := o.val.([]interface{}); len(full) == 8 && (arr[0] != full[5] || arr[1] != full[7]) {
					return eng.F("C05/history-dependent", "%s = %s on a runner whose previous comparisons of arrays failed, a fresh runner gives [%s, %s]", strict, show(os.val), show(full[5]), show(full[7]))
				}
			}
		}
		o2 := safeResolve(r, bg, p2.Expression)
		if o2.panicked || (o2.err == nil) != (o.err == nil) || canonImpl(o2.val) != canonImpl(o.val) {
			return eng.F("C05/history-dependent", "%s = %s on a fresh runner, but %s %v on a runner whose previous comparisons of arrays failed", src, canonImpl(o.val), canonImpl(o2.val), o2.err)
		}
	}
	if o.panicked || o.err != nil {
		return eng.F("C05/eval", "%s: %v %s", src, o.err, o.panicMsg)
	}
	arr, ok := o.val.([]interface{})
	if !ok || len(arr) != 8 {
		return eng.F("C05/eval", "%s: result %s", src, show(o.val))
	}
	var r [8]bool
	for i, v := range arr {
		bv, ok := v.(bool)
		if !ok {
			return eng.F("C05/not-boolean", "%s %s %s yields %s, not a boolean", a.Expr, cmpOps[i], b.Expr, show(v))
		}
		r[i] = bv
	}
	lt, eq, gt, le, ge, seq, ne, sne := r[0], r[1], r[2], r[3], r[4], r[5], r[6], r[7]
	outcome(fmt.Sprint(a.Kind, b.Kind, r))
	pair := a.Expr + " , " + b.Expr
	if ne != !eq {
		return eng.F("C05/ne-not-negation", "%s: != is %v but == is %v", pair, ne, eq)
	}
	if sne != !seq {
		return eng.F("C05/sne-not-negation", "%s: !== is %v but === is %v", pair, sne, seq)
	}
	ka, kb := a.Kind, b.Kind
	if ka == "numx" {
		ka = "num"
	}
	if kb == "numx" {
		kb = "num"
	}
	// strict equality
	wantSeq := false
	switch {
	case ka == "null" && kb == "null":
		wantSeq = true
	case ka != kb:
		wantSeq = false
	case a.Kind != b.Kind:
		wantSeq = false // a finite number and an infinity or NaN: same kind, never the same value
	case a.Kind == "num" && b.Kind == "num":
		wantSeq = a.Num.Cmp(b.Num) == 0
	case ka == "str":
		wantSeq = a.Str == b.Str
	case ka == "bool":
		wantSeq = a.Bool == b.Bool
	default:
		wantSeq = seq // non-finite numbers: not fixed
	}
	if seq != wantSeq {
		return eng.F("C05/strict-equality", "%s: === is %v, expected %v (kinds %s, %s)", pair, seq, wantSeq, a.Kind, b.Kind)
	}
	if ka == kb && eq != seq {
		return eng.F("C05/loose-vs-strict", "%s: same kind %s but == is %v and === is %v", pair, ka, eq, seq)
	}
	if a.Kind == "num" && b.Kind == "num" {
		cmp := a.Num.Cmp(b.Num)
		if lt != (cmp < 0) || eq != (cmp == 0) || gt != (cmp > 0) {
			return eng.F("C05/numeric-order", "%s: < == > are %v %v %v, numeric order is %d", pair, lt, eq, gt, cmp)
		}
		if le != (lt || eq) || ge != (gt || eq) {
			return eng.F("C05/le-ge", "%s: <= is %v, >= is %v, but < == > are %v %v %v", pair, le, ge, lt, eq, gt)
		}
	}
	if ka == "str" && kb == "str" {
		if lt != (a.Str < b.Str) || gt != (a.Str > b.Str) || eq != (a.Str == b.Str) || le != (a.Str <= b.Str) || ge != (a.Str >= b.Str) {
			return eng.F("C05/string-order", "%q vs %q: < == > <= >= are %v %v %v %v %v, byte-wise order says %v %v %v %v %v", a.Str, b.Str, lt, eq, gt, le, ge, a.Str < b.Str, a.Str == b.Str, a.Str > b.Str, a.Str <= b.Str, a.Str >= b.Str)
		}
	}
	return nil
}

// TripleCase: an equality operator whose right operand is an unparenthesised relational expression:
// the negation laws hold for the formula as the grammar groups it (equality binds looser).
type TripleCase struct {
	A, B, C string
	Rel     string
}

var c05Triple *eng.Kind[TripleCase]

func judgeTriple(c TripleCase) *eng.Fail {
	rel := c.B + " " + c.Rel + " " + c.C
	src := fmt.Sprintf("[%s === %s, %s !== %s, %s == %s, %s != %s, %s === (%s), %s !== (%s), %s == (%s), %s != (%s), %s === %s, %s !== %s]",
		c.A, rel, c.A, rel, c.A, rel, c.A, rel, c.A, rel, c.A, rel, c.A, rel, c.A, rel, rel, c.A, rel, c.A)
	o, perr := evalSrc(src, cmpData)
	if perr != nil || o.panicked || o.err != nil {
		return eng.F("C05/eval", "%s: %v %v %s", src, perr, o.err, o.panicMsg)
	}
	arr, _ := o.val.([]interface{})
	if len(arr) != 10 {
		return eng.F("C05/eval", "%s: %s", src, show(o.val))
	}
	var r [10]bool
	for i, v := range arr {
		b, ok := v.(bool)
		if !ok {
			return eng.F("C05/not-boolean", "%s: element %d is %s", src, i, show(v))
		}
		r[i] = b
	}
	outcome(fmt.Sprint("triple", r))
	switch {
	case r[0] == r[1]:
		return eng.F("C05/sne-not-negation", "%s === %s is %v and %s !== %s is %v", c.A, rel, r[0], c.A, rel, r[1])
	case r[2] == r[3]:
		return eng.F("C05/ne-not-negation", "%s == %s is %v and %s != %s is %v", c.A, rel, r[2], c.A, rel, r[3])
	case r[0] != r[4] || r[1] != r[5] || r[2] != r[6] || r[3] != r[7]:
		return eng.F("C05/equality-groups-looser", "%s: with and without parentheses around the relational operand the results are %v and %v", src, r[:4], r[4:8])
	case r[8] == r[9]:
		return eng.F("C05/sne-not-negation", "%s === %s is %v and %s !== %s is %v", rel, c.A, r[8], rel, c.A, r[9])
	}
	return nil
}

func runC05(w *eng.W) {
	W = w
	buildCmpGrid()
	tv := []string{"true", "false", "1", "0", "2", "'a'", "null", "(1 < 2)"}
	for _, a := range tv {
		if !w.Take() {
			continue
		}
		for _, b := range tv {
			for _, c := range tv {
				for _, rel := range []string{"<", ">", "<=", ">="} {
					w.State(1)
					w.Trans(10)
					w.Trace(1)
					w.Note("leg:equality-over-relational", 1)
					tc := TripleCase{a, b, c, rel}
					w.Sample("equality-over-relational", tc)
					c05Triple.Do(w, tc)
				}
			}
		}
	}
	n := len(cmpGrid)
	w.Text("grid", fmt.Sprintf("%d values, %d ordered pairs x 8 operators", n, n*n))
	for i := 0; i < n; i++ {
		if !w.Take() {
			continue
		}
		for j := 0; j < n; j++ {
			w.State(1)
			w.Trans(8)
			w.Trace(1)
			c := CmpCase{I: i, J: j, A: cmpGrid[i].Expr, B: cmpGrid[j].Expr}
			w.Sample("pairs", c)
			c05Cmp.Do(w, c)
		}
	}
}
