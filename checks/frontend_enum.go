package checks

import (
	"strings"

	"verif/internal/eng"
	"verif/internal/ref"
)

// W is the worker handle of the running check (workers are single-threaded); nil in replay.
var W *eng.W

func outcome(s string) {
	if W != nil {
		W.Outcome(s)
	}
}
func note(name string, n int64) {
	if W != nil {
		W.Note(name, n)
	}
}
func noteMax(name string, n int64) {
	if W != nil {
		W.NoteMax("max:"+name, n)
	}
}

// seqsSharded enumerates all sequences of exactly k symbols over n symbols; the first
// min(2,k) positions form the unit of work dealt to workers. f gets the index vector.
func seqsSharded(w *eng.W, n, k int, f func(idx []int)) {
	if k == 0 {
		if w.Take() {
			f(nil)
		}
		return
	}
	pre := 2
	if k < pre {
		pre = k
	}
	idx := make([]int, k)
	seqs(n, pre, func(p []int) {
		if !w.Take() || w.Expired() {
			return
		}
		copy(idx, p)
		if k == pre {
			f(idx)
			return
		}
		seqs(n, k-pre, func(q []int) {
			copy(idx[pre:], q)
			f(idx)
		})
	})
}

func joinIdx(alpha []string, idx []int, sep string) []byte {
	var b []byte
	for i, x := range idx {
		if i > 0 {
			b = append(b, sep...)
		}
		b = append(b, alpha[x]...)
	}
	return b
}

// tokenSeqs: every sequence of 0..k lexemes joined by single spaces.
func tokenSeqs(w *eng.W, leg string, alpha []string, k int, f func(leg string, src []byte)) {
	for l := 0; l <= k; l++ {
		seqsSharded(w, len(alpha), l, func(idx []int) {
			f(leg, joinIdx(alpha, idx, " "))
		})
		if w.Expired() {
			w.Cap(leg + ": stopped at length " + itoa(l))
			return
		}
	}
}

func itoa(n int) string { return ref.FromInt64(int64(n)).C.String() }

// gapSeqs: every sequence of 2..k lexemes with every assignment of gaps to the k-1 joints.
func gapSeqs(w *eng.W, leg string, alpha []string, gaps []string, k int, f func(leg string, src []byte)) {
	for l := 2; l <= k; l++ {
		seqsSharded(w, len(alpha), l, func(idx []int) {
			seqs(len(gaps), l-1, func(g []int) {
				var b []byte
				for i, x := range idx {
					if i > 0 {
						b = append(b, gaps[g[i-1]]...)
					}
					b = append(b, alpha[x]...)
				}
				f(leg, b)
			})
		})
		if w.Expired() {
			w.Cap(leg + ": stopped at length " + itoa(l))
			return
		}
	}
}

// RawBytes: bytes chosen so that every scanner branch is reachable.
var RawBytes = []string{"a", "1", "0", "x", "e", "_", ".", "'", "\"", "\\", "!", "=", "(", ",", " ", "\n", "\r", "\xC2", "\x85", "\xE4", "\xFF", "\x00"}

func byteStrings(w *eng.W, leg string, n int, f func(leg string, src []byte)) {
	for l := 0; l <= n; l++ {
		seqsSharded(w, len(RawBytes), l, func(idx []int) {
			f(leg, joinIdx(RawBytes, idx, ""))
		})
		if w.Expired() {
			w.Cap(leg + ": stopped at length " + itoa(l))
			return
		}
	}
}

var infixForms = append(append([]string{}, ref.BinaryOps...), "=", ",", "? t :")

// infixTriples: a o1 b o2 c o3 d over all infix forms (binary ladder, =, comma, ?:).
func infixTriples(w *eng.W, leg string, f func(leg string, src []byte)) {
	n := len(infixForms)
	seqsSharded(w, n, 3, func(idx []int) {
		s := "a " + infixForms[idx[0]] + " b " + infixForms[idx[1]] + " c " + infixForms[idx[2]] + " d"
		f(leg, []byte(s))
	})
	seqsSharded(w, n, 2, func(idx []int) {
		f(leg, []byte("a "+infixForms[idx[0]]+" b "+infixForms[idx[1]]+" c"))
	})
}

var prefixForms = []string{"", "+", "-", "!", "!!", "~", "typeof "}
var postfixForms = []string{"", ".x", "!.x", "(y)", "()"}

// prefixPostfix: P1 P2 a Q1 Q2 op P3 b Q3.
func prefixPostfix(w *eng.W, leg string, ops []string, f func(leg string, src []byte)) {
	np, nq := len(prefixForms), len(postfixForms)
	for _, op := range ops {
		op := op
		seqsSharded(w, np, 3, func(p []int) {
			seqs(nq, 3, func(q []int) {
				s := prefixForms[p[0]] + prefixForms[p[1]] + "a" + postfixForms[q[0]] + postfixForms[q[1]] + " " + op + " " + prefixForms[p[2]] + "b" + postfixForms[q[2]]
				f(leg, []byte(s))
			})
		})
	}
}

// listForms: delimited lists with every separator / spread placement.
// byteSequences: texts that are not valid UTF-8 - stray continuation and lead bytes, sequences cut short, an
// encoded surrogate, an overlong form - at every place of a short text and in particular at its very end.
func byteSequences(w *eng.W, leg string, n int, f func(leg string, src []byte)) {
	atoms := []string{"a", "1", " ", "+", "(", "'", ".", "\n", "\xff", "\x80", "\xe2", "\xe2\x80", "\xf0\x9f\x98", "\xc3", "\xed\xa0\x80", "\xc0\x80", "中", "\ufffd", "\xe9", "\""}
	for l := 1; l <= n; l++ {
		seqsSharded(w, len(atoms), l, func(idx []int) {
			f(leg, joinIdx(atoms, idx, ""))
		})
	}
}

func listForms(w *eng.W, leg string, f func(leg string, src []byte)) {
	// (lists inside elements: a parenthesised sequence is ONE element, a list or call inside an element keeps its own commas)
	items := []string{"a", "-a", "!!a", "...", "", "$x = 1", "a ? b : c", "(a, b)", "((a, b), c)", "[a, b]", "g(a, b)", "(g(a, b), c)", "(a, b)...",
		// an assignment in the else branch, compound-assignment look-alikes, a conditional as the value of an assignment
		"a ? b : $x = 1", "a ? b : c ? d : $x = e", "$x += 1", "$x -= b", "$x = a ? b : c"}
	seps := []string{",", " ", ",,", ", "}
	wrappers := [][2]string{{"[", "]"}, {"f(", ")"}, {"a.b(", ")"}, {"[", ""}, {"f(", ""}}
	ni, ns := len(items), len(seps)
	for _, wr := range wrappers {
		wr := wr
		seqsSharded(w, ni, 3, func(it []int) {
			seqs(ns, 3, func(sp []int) {
				s := wr[0] + items[it[0]] + seps[sp[0]] + items[it[1]] + seps[sp[1]] + items[it[2]] + seps[sp[2]] + wr[1]
				f(leg, []byte(s))
				s2 := wr[0] + items[it[0]] + seps[sp[0]] + items[it[1]] + wr[1]
				f(leg, []byte(s2))
			})
		})
	}
}

// postfixChains: base followed by up to three postfix operations, with every choice of
// nothing / space / line break before each operation (and inside a member access).
func postfixChains(w *eng.W, leg string, depth int, f func(leg string, src []byte)) {
	bases := []string{"a", "(a)", "[a]", "1", "'s'", "-a", "typeof a"}
	type pf struct{ a, b string } // a GAP2 b ; b may be empty
	ops := []pf{{".", "x"}, {"!.", "x"}, {"(", ")"}, {"(y", ")"}, {".", "typeof"}}
	gaps := []string{"", " ", "\n", " \n ", "\u2028", "\u0085", "\r"}
	inner := []string{"", "\n"}
	// one op instance = op x gap-before x inner-gap
	type inst struct{ s string }
	var insts []string
	for _, o := range ops {
		for _, g := range gaps {
			for _, in := range inner {
				insts = append(insts, g+o.a+in+o.b)
			}
		}
	}
	for _, b := range bases {
		b := b
		for d := 1; d <= depth; d++ {
			seqsSharded(w, len(insts), d, func(idx []int) {
				var sb strings.Builder
				sb.WriteString(b)
				for _, x := range idx {
					sb.WriteString(insts[x])
				}
				f(leg, []byte(sb.String()))
				// the same chain as a binary operand and as a list element
				f(leg, []byte("c + "+sb.String()))
			})
		}
	}
	_ = inst{}
}

// lookaheadForms: the parser's only speculative path is the member name on the line after a
// dot; this family puts such a member access in every list / conditional / parenthesis context
// and follows it by every sequence of up to three tokens from an alphabet of error and
// continuation tokens (one input per shortcut visible in the code: look-ahead + recovery).
func lookaheadForms(w *eng.W, leg string, f func(leg string, src []byte)) {
	contexts := []string{"%s", "[%s]", "f(%s)", "(%s)", "[c ? %s]", "f(c ? %s)", "c ? %s", "[x, %s]", "f(x, %s", "[c ? %s : d]", "-%s", "typeof %s"}
	bodies := []string{"a.\nb", "a!.\nb", "a.\n\nb", "a.b.\nc", "a.\ntrue", "a.\n'b'", "f().\nb", "a.\r\nb", "a.\u2028b"}
	alpha := []string{"#", "b", ")", "]", ",", ":", "?", "1", ".", "(", "+", "\n", "'", "=", "..."}
	for _, ctx := range contexts {
		for _, body := range bodies {
			ctx, body := ctx, body
			for l := 0; l <= 3; l++ {
				seqsSharded(w, len(alpha), l, func(idx []int) {
					tail := string(joinIdx(alpha, idx, " "))
					inner := body
					if tail != "" {
						inner += " " + tail
					}
					f(leg, []byte(strings.Replace(ctx, "%s", inner, 1)))
				})
			}
		}
	}
}

// neighbourTexts: code points next to (sharing leading bytes with) every white-space, line-break and
// byte-order-mark character, at the very start of the input, in the middle and at the end of short texts.
func neighbourTexts(w *eng.W, leg string, f func(string, []byte)) {
	special := []rune{0x09, 0x0b, 0x0c, 0x20, 0x0a, 0x0d, 0x85, 0xa0, 0x1680, 0x2000, 0x200a, 0x200b, 0x2028, 0x2029, 0x202f, 0x205f, 0x3000, 0xfeff}
	seen := map[rune]bool{}
	var cps []rune
	for _, sp := range special {
		for _, d := range []rune{-64, -2, -1, 0, 1, 2, 63, 64} {
			c := sp + d
			if c >= 0x80 && c < 0x110000 && !(c >= 0xd800 && c <= 0xdfff) && !seen[c] {
				seen[c] = true
				cps = append(cps, c)
			}
		}
	}
	for c := rune(0xfec0); c <= 0xfeff; c++ { // every code point that starts with the bytes of the BOM
		if !seen[c] {
			seen[c] = true
			cps = append(cps, c)
		}
	}
	for _, c := range cps {
		if !w.Take() {
			continue
		}
		ch := string(c)
		for _, form := range []string{"%s", "%s - 1", "%s[1]", "%sa", "a%sb", "1 +%s", "%s%s", "(%s)", "'%s'", "a.%s", "%s\n+ 1", "\ufeff%s", " %s"} {
			f(leg, []byte(strings.Replace(form, "%s", ch, -1)))
		}
	}
}
