package checks

import (
	"context"
	"errors"
	"math"
	"time"

	"github.com/ericlagergren/decimal"
)

// valSpec is one member of a value alphabet: either a literal snippet written into the
// formula, or a name bound in the data map.
type valSpec struct {
	Name  string      // short label used in case descriptions
	Expr  string      // text written into the formula
	Data  interface{} // if non-nil-able: bound under Expr in the data map (when Bound)
	Bound bool
}

type zooStruct struct {
	A int
	S string
	b int
	N *zooStruct
}

var zooTime = time.Date(2024, 2, 29, 13, 45, 59, 123000000, time.UTC)

func goodFunc(x interface{}) (interface{}, error)           { return x, nil }
func errFunc(x interface{}) (interface{}, error)            { return nil, errors.New("boom") }
func variadicFunc(xs ...interface{}) (interface{}, error)   { return len(xs), nil }
func strIntsFunc(s string, xs []int) (interface{}, error)   { return len(xs), nil }
func oneResultFunc() int                                    { return 1 }
func threeResultFunc() (int, int, error)                    { return 1, 2, nil }
func noErrTypeFunc() (int, int)                             { return 1, 2 }
func ctxFunc(ctx context.Context, s string) (string, error) { return s, nil }

var nilFunc func() (int, error)

// zooValues: every supported and every odd kind of value a caller can put into the data map.
func zooValues() []valSpec {
	var ip *int
	seven := 7
	var nilMap map[string]interface{}
	zs := zooStruct{A: 1, S: "s", b: 2}
	vals := []valSpec{
		{Name: "null-literal", Expr: "null"},
		{Name: "nil", Data: nil},
		{Name: "true", Data: true},
		{Name: "false", Data: false},
		{Name: "f0", Data: 0.0},
		{Name: "fneg0", Data: math.Copysign(0, -1)},
		{Name: "f1", Data: 1.0},
		{Name: "f-1.5", Data: -1.5},
		{Name: "f1e30", Data: 1e30},
		{Name: "f2^63", Data: 9223372036854775808.0},
		{Name: "f1e6", Data: 1e6},
		{Name: "fNaN", Data: math.NaN()},
		{Name: "f+Inf", Data: math.Inf(1)},
		{Name: "f-Inf", Data: math.Inf(-1)},
		{Name: "lit-3", Expr: "3"},
		{Name: "lit-neg", Expr: "(-2)"},
		{Name: "0/0", Expr: "(0/0)"},
		{Name: "1/0", Expr: "(1/0)"},
		{Name: "1e999999", Expr: "1e999999"},
		{Name: "tiny-exponent", Expr: "1e-30000000"},
		{Name: "huge-exponent", Expr: "1e99999999999"},
		{Name: "neg-tiny-exponent", Expr: "(-1e-300000000)"},
		{Name: "str-empty", Data: ""},
		{Name: "str-a", Data: "a"},
		{Name: "str-1", Data: "1"},
		{Name: "str-paren", Data: "("},
		{Name: "str-cjk", Data: "中"},
		{Name: "lit-str", Expr: "'xy'"},
		{Name: "arr-empty", Data: []interface{}{}},
		{Name: "arr-mixed", Data: []interface{}{1.0, "a", nil}},
		{Name: "arr-lit", Expr: "[1,'a']"},
		{Name: "[]string", Data: []string{"a", "b"}},
		{Name: "[]int", Data: []int{1, 2}},
		{Name: "[]map", Data: []map[string]interface{}{{"k": 1.0}}},
		{Name: "map-empty", Data: map[string]interface{}{}},
		{Name: "map", Data: map[string]interface{}{"k": 1.0, "f": goodFunc, "n": nil}},
		{Name: "map-nil", Data: nilMap},
		{Name: "map[string]int", Data: map[string]int{"z": 0, "k": 1}},
		{Name: "map[int]string", Data: map[int]string{1: "a"}},
		{Name: "struct", Data: zs},
		{Name: "*struct", Data: &zs},
		{Name: "nil-*int", Data: ip},
		{Name: "*int", Data: &seven},
		{Name: "time-zero", Data: time.Time{}},
		{Name: "time", Data: zooTime},
		{Name: "ctx-value", Data: context.Background()},
		{Name: "ctx-literal", Expr: "ctx"},
		{Name: "this-literal", Expr: "this"},
		{Name: "func-good", Data: goodFunc},
		{Name: "func-err", Data: errFunc},
		{Name: "func-variadic", Data: variadicFunc},
		{Name: "func-str-ints", Data: strIntsFunc},
		{Name: "func-nil", Data: nilFunc},
		{Name: "func-1-result", Data: oneResultFunc},
		{Name: "func-3-results", Data: threeResultFunc},
		{Name: "func-no-error-type", Data: noErrTypeFunc},
		{Name: "func-ctx", Data: ctxFunc},
		{Name: "builtin-len", Expr: "len"},
		{Name: "int8", Data: int8(3)},
		{Name: "uint", Data: uint(3)},
		{Name: "uint8", Data: uint8(3)},
		{Name: "float32", Data: float32(1.5)},
		{Name: "int", Data: 7},
		{Name: "int32", Data: int32(7)},
		{Name: "int64", Data: int64(1) << 62},
		{Name: "decimal", Data: decimal.New(15, 1)},
		{Name: "nil-decimal", Data: (*decimal.Big)(nil)},
		{Name: "chan", Data: make(chan int)},
		{Name: "error-value", Data: errors.New("e")},
		// coefficients beyond 64 bits with extreme exponents (the decimal library keeps these in a
		// big.Int and several of its conversions multiply the exponent out)
		{Name: "long-coef-huge-exp", Expr: "92233720368547758080e999999999"},
		{Name: "long-coef-tiny-exp", Expr: "92233720368547758080e-999999999"},
		{Name: "23-digit-coef-e8", Expr: "12345678901234567890123e99999999"},
		{Name: "finite-huge-exp", Expr: "1e999999999"},
		{Name: "finite-tiny-exp", Expr: "1e-999999999"},
		{Name: "str-long-coef-tiny-exp", Data: "92233720368547758080E-999999999999999999"},
		{Name: "str-long-coef-huge-exp", Data: "12345678901234567890123e99999999"},
		{Name: "neg-long-coef-huge-exp", Expr: "(-92233720368547758080e999999999)"},
		// exponents at the edge of 64-bit integers (beyond what the decimal library computes with)
		{Name: "exp-int64-edge", Expr: "1e9223372036854775807"},
		{Name: "neg-exp-int64-edge", Expr: "1e-9223372036854775807"},
		{Name: "exp-half-int64", Expr: "1e4611686018427387904"},
		{Name: "str-neg-exp-int64-edge", Data: "1e-9223372036854775807"},
		{Name: "exp-library-edge", Expr: "1e999999999999999990"},
		{Name: "neg-exp-library-edge", Expr: "7e-999999999999999990"},
	}
	for i := range vals {
		if vals[i].Expr == "" {
			vals[i].Expr = "v" + itoa(i)
			vals[i].Bound = true
		}
	}
	return vals
}

// zooData builds the data map binding every Bound value.
func zooData(vals []valSpec) map[string]interface{} {
	m := map[string]interface{}{}
	for _, v := range vals {
		if v.Bound {
			m[v.Expr] = v.Data
		}
	}
	return m
}

// builtinNames: the builtins registered by the package at init.
var builtinNames = []string{
	"now", "toDay", "date", "addDate", "year", "month", "day", "hour", "minute", "second", "millSecond", "weekDay", "timeFormat", "useTimezone",
	"abs", "ceil", "exp", "floor", "ln", "log", "max", "min", "round", "roundBank", "roundCash", "sqrt", "finite",
	"startWith", "endWith", "contains", "find", "includes", "left", "right", "len", "lower", "upper", "lpad", "rpad", "mid", "replace", "trim", "regexp",
	"mapToArr", "join", "toString", "toInt", "toFloat",
}
