package checks

import (
	"context"
	"encoding/json"
	"fmt"
	"os"
	"os/exec"
	"sort"
	"strings"
	"sync"
	"sync/atomic"
	"time"

	formula "github.com/aundis/formula"

	"verif/internal/eng"
	"verif/internal/sched"
)

// SchedCase: one scenario (thread bodies) under one schedule (choice list).
type SchedCase struct {
	Threads  []string `json:"threads"` // body names
	Schedule []int    `json:"schedule"`
	Bound    int      `json:"bound"`
}

var c09Sched *eng.Kind[SchedCase]

func init() {
	c := eng.Register(&eng.Check{
		ID:    "C09",
		Title: "A parsed formula can be shared across goroutines",
		Rule: "leg A (deciding): 2- and 3-thread scenarios built from the bodies {evaluate a shared tree with an own runner and data map, collect the fields of a shared tree, parse another text, parse a malformed text and format its diagnostic} over twenty-one shared trees (incl. one read-only catalogue referred to by every thread's data map, a refused call next to ordinary calls and the two logarithms of the same wide arguments); the package is compiled from an overlay that yields to a cooperative scheduler at every function entry and before every statement touching a package-level variable; every schedule with at most b preemptions is executed (iterative preemption bounding, depth-first over choice prefixes) and every thread's observation must equal its sequential observation, the shared trees' dumps must be unchanged; a control scenario sharing one runner must show several outcomes (vacuity guard); " +
			"leg B (complement, sampled): the same bodies free-running under the race detector with G in {2,4,8,16} and several GOMAXPROCS; distinct = distinct observation vectors over all schedules",
		TrustedBase: []string{"internal/sched (cooperative scheduler, preemption-bounded DFS)", "cmd/vinstr (yield-point injection through go build -overlay)", "Go race detector (leg B)"},
		Assumptions: []string{"interleavings are explored at injected points only; unsynchronised accesses between points are the race detector's job (leg B), which samples schedules", "state inside the decimal and regexp libraries is not scheduled", "a thread that blocks on a primitive the scheduler does not model makes that schedule count as stalled (reported, never a violation)"},
		Run:         runC09,
		Post:        c09Post,
	})
	c09Sched = eng.NewKind(c, "schedule", judgeSched)
	eng.NewKind(c, "race", func(m map[string]interface{}) *eng.Fail {
		bin := os.Getenv("VERIF_VRACE")
		if bin == "" {
			bin = "bin/vrace"
		}
		ctx, cancel := context.WithTimeout(context.Background(), 10*time.Minute)
		defer cancel()
		cmd := exec.CommandContext(ctx, bin, "300")
		cmd.Env = append(os.Environ(), "GORACE=halt_on_error=1 exitcode=66", "TZ=UTC")
		out, err := cmd.CombinedOutput()
		if err != nil {
			msg := string(out)
			if len(msg) > 3000 {
				msg = msg[:3000]
			}
			return eng.F("C09/data-race", "race pass failed again (%v):\n%s", err, msg)
		}
		return nil
	})
}

// ---- shared trees and thread bodies (also used by cmd/vrace) -----------------

var C09Trees = []string{
	"(a + b) * (c - 2) / 3 + max(a, b, 7) % 4",
	"sqrt(a) + len(s) + (regexp(s,'^a') ? 1 : 0) + year(date(2024,1,2))",
	"p.name.first + p!.age",
	"$v = a + 1, $w = $v * 2, [$v, $w]",
	"vf(1, [2,3]...) + f(2,'x')",
	"upper(left(s,2)) + toString(b) + join(['x','y'], '-') + (n ?? 'd')",
	// data-dependent trees: each thread evaluates them with its OWN variant of the data
	"[regexp(s, pat), regexp('zzz' + s, pat)]",
	"timeFormat(useTimezone(t, zn), lay) + '|' + toString(hour(useTimezone(t, zn)))",
	"[x + 1, toString(x), x == 1, vx(x)]",
	// a callee that is a function for one thread, a number for another and missing for a third (error
	// paths of the call machinery next to its normal path)
	"[rate(amount) + 1, upper('q')]",
	// struct-typed records whose (anonymous) types differ between threads
	"rec.Name + ':' + rec.Qty + ':' + len(rec.Name)",
	"[amount % 7, 12345678901234567890123 % amount, 1e40 % 1234567, amount % 0.3]",
	// an error whose text depends on the thread's data; the thread reads the text only after yielding
	"sel ? nul!.alpha : nul!.beta",
	// a local counted up in the thread's OWN (empty) data map
	"$seen = ($seen ?? 0) + 1",
	// lists of constants only: every evaluation hands out a list of its own, which its consumer may write to
	"['alpha', 'beta', true, null]",
	"[z ? ['p', 'q'] : ['r'], ['x', \"y\"], [null]]",
	// a long list whose first element binds a local that every later element reads (thread's own data map)
	"[$a = 7" + strings.Repeat(", $a", 32) + "]",
	// (17) a host function whose results are not (value, error): the call is refused - after the call
	// machinery has done part of its work - next to ordinary calls (data variant 4)
	"f(2,'x') + badres()",
	// (18, 19) the two logarithms of the same wide arguments, the slowest computations a formula can ask for
	"[ln(3e100), ln(7e80), ln(3e100)]",
	"[log(3e100), log(7e80), log(3e100)]",
	// (20) each thread's own data map refers to one read-only catalogue that all threads share (data variant 5)
	"[len('' + catalog), catalog.rows == 'x']",
}

// c09Catalog: read-only data that the data maps of all threads refer to
var c09Catalog = func() map[string]interface{} {
	var rows []interface{}
	for i := 0; i < 2; i++ {
		rows = append(rows, []interface{}{float64(i), map[string]interface{}{"tags": []interface{}{"x"}}})
	}
	return map[string]interface{}{"rows": rows, "name": "catalogue"}
}()

// c09SharedCtx: one cancellable context handed to every evaluation (contexts are made to be shared)
var c09SharedCtx, c09SharedCancel = context.WithCancel(context.Background())

var c09OwnCounter atomic.Int64

// scribbleLists overwrites every element of every list inside v (the consumer owns its result).
func scribbleLists(v interface{}, mark string) {
	if l, ok := v.([]interface{}); ok {
		for i := range l {
			scribbleLists(l[i], mark)
			l[i] = mark
		}
	}
}

// C09Variants: per-thread data variants for the data-dependent trees.
var C09Variants = [][]interface{}{
	{"pat", "^a", "zn", "UTC", "lay", "15:04", "x", 1.0, "vx", func(n float64) (float64, error) { return n * 2, nil },
		"sel", true, "rate", func(n float64) (float64, error) { return n / 4, nil }, "amount", 1000.0, "rec", struct {
			Name string
			Qty  int
		}{"bolt", 3}},
	{"pat", "c$", "zn", "Asia/Shanghai", "lay", "15:04", "x", 2.5, "vx", func(n interface{}) (string, error) { return "any", nil },
		"sel", false, "rate", 0.25, "amount", 77.5, "rec", struct {
			Qty  int
			Name string
		}{4, "nut"}},
	{"pat", "^zzz", "zn", "America/New_York", "lay", "2006-01-02 15", "x", "1", "vx", func(ns ...float64) (int, error) { return len(ns), nil },
		"amount", int64(9007199254740993), "rec", struct {
			ID   int
			Qty  float64
			Name string
		}{1, 2.5, "washer"}},
}

var c09Shared []*formula.SourceCode
var c09SharedDump []string

func C09Setup() error {
	c09Shared = nil
	c09SharedDump = nil
	for _, t := range C09Trees {
		o := safeParse([]byte(t))
		if o.panicked || o.err != nil {
			return fmt.Errorf("shared tree %q does not parse: %v %s", t, o.err, o.panicMsg)
		}
		c09Shared = append(c09Shared, o.src)
		c09SharedDump = append(c09SharedDump, dumpTree(o.src))
	}
	return nil
}

// C09SharedUnchanged compares the shared trees with their dumps taken at setup.
func C09SharedUnchanged() string {
	for i, s := range c09Shared {
		if d := dumpTree(s); d != c09SharedDump[i] {
			return fmt.Sprintf("shared tree %q changed:\n  before %s\n  after  %s", C09Trees[i], c09SharedDump[i], d)
		}
	}
	return ""
}

var c09OtherTexts = []string{"1 + 2 * (3 - x)", "f(a, [b, c]...) ? 'y' : \"n\"", "a.b!.c + len('中')", "'\\u4e2d\\x41' + \"\\u00e9\\n\" + 1_000.5e+1_0", "'\\u9fa5\\x42\\t' + .5e-3 + a.\nb"}
var c09BadTexts = []string{"1 +\r\n(", "[a, b", "'open\n", "0x1F + 'a\\u12'", "1__0 + '\\x4'", "a ? b", "x ? (y ? 1", "cond ? [1, 2] + 'abc'"}

// C09Body returns the thread body named name ("eval:2", "fields:0", "parse:1", "bad:0").
func C09Body(name string) func() string {
	parts := strings.SplitN(name, ":", 2)
	idx := 0
	fmt.Sscan(parts[1], &idx)
	variant := -1
	if sub := strings.SplitN(parts[1], ":", 2); len(sub) == 2 {
		fmt.Sscan(sub[0], &idx)
		fmt.Sscan(sub[1], &variant)
	}
	evalOnce := func() string {
		r := formula.NewRunner()
		switch {
		case variant == 3:
			r.SetThis(map[string]interface{}{}) // the thread's own, empty data map
		case variant == 5:
			d := c08Data()
			d["catalog"] = c09Catalog
			r.SetThis(d)
		case variant == 4:
			d := c08Data()
			d["badres"] = func() (int, bool) { return 1, true }
			r.SetThis(d)
		case variant >= 0:
			r.SetThis(c08With(C09Variants[variant]...)())
		default:
			r.SetThis(c08Data())
		}
		o := safeResolve(r, bg, c09Shared[idx].Expression)
		switch {
		case o.panicked:
			return "panic:" + o.panicMsg
		case o.err != nil:
			// the caller looks at the error a little later (other threads may have run meanwhile)
			sched.Point("harness:before-reading-the-error")
			return "error:" + o.err.Error()
		}
		return showExact(o.val)
	}
	switch parts[0] {
	case "eval":
		return evalOnce
	case "eval2":
		// the same evaluation twice in a row (own runner each time): a corrupted cache shows on the second
		return func() string { return evalOnce() + " ; " + evalOnce() }
	case "own":
		// the consumer stamps the lists of its result, lets others run, and looks again: its stamps are
		// still there, and a later evaluation is as if nobody had ever written to an earlier result
		return func() string {
			r := formula.NewRunner()
			r.SetThis(c08Data())
			o := safeResolve(r, bg, c09Shared[idx].Expression)
			if o.panicked || o.err != nil {
				return "own: evaluation failed " + o.panicMsg
			}
			first := showExact(o.val)
			mark := fmt.Sprintf("mine-%d", c09OwnCounter.Add(1))
			scribbleLists(o.val, mark)
			stamped := showExact(o.val)
			sched.Point("harness:consumer-wrote-to-its-list")
			if now := showExact(o.val); now != stamped {
				return "own-list-changed: a consumer stamped its result " + stamped + " and later finds " + now
			}
			if again := evalOnce(); again != first {
				return "own-list-changed: " + first + " was handed out and written to by its consumer; the next evaluation gives " + again
			}
			return first
		}
	case "ctxtext":
		// the shared context is converted to text (by +, toString, join, ==) while a host function called
		// from the same formula derives child contexts from it: the evaluator reads the context only
		// through its own methods
		return func() string {
			r := formula.NewRunner()
			d := c08Data()
			d["work"] = func(ctx context.Context) (float64, error) {
				child, cancel := context.WithTimeout(ctx, time.Hour)
				defer cancel()
				_ = child
				return 1, nil
			}
			r.SetThis(d)
			p, err := cachedParseC09([]string{"len('' + ctx) > 0 && work() == 1", "len(toString(ctx)) > 0 && work() == 1 && len(join([ctx, 1], ',')) > 0", "[work(), 'a' == ctx, work()]"}[idx%3])
			if err != nil {
				return "parse error: " + err.Error()
			}
			o := safeResolve(r, c09SharedCtx, p.Expression)
			if o.panicked {
				return "panic:" + o.panicMsg
			}
			if o.err != nil {
				return "error:" + o.err.Error()
			}
			return showExact(o.val)
		}
	case "fields":
		return func() (obs string) {
			defer func() {
				if r := recover(); r != nil {
					obs = fmt.Sprint("panic:", r)
				}
			}()
			f1, err1 := formula.ResolveReferenceFields(c09Shared[idx])
			f2, err2 := formula.ResolveReferenceFieldsNotLocal(c09Shared[idx])
			sort.Strings(f1)
			sort.Strings(f2)
			return fmt.Sprintf("%q %v | %q %v", f1, err1, f2, err2)
		}
	case "parse":
		return func() string {
			o := safeParse([]byte(c09OtherTexts[idx]))
			if o.panicked {
				return "panic:" + o.panicMsg
			}
			if o.err != nil {
				return "error:" + o.err.Error()
			}
			return dumpTree(o.src)
		}
	case "bad":
		return func() string {
			o := safeParse([]byte(c09BadTexts[idx]))
			if o.panicked {
				return "panic:" + o.panicMsg
			}
			s := "no error"
			if o.err != nil {
				s = "error:" + o.err.Error()
			}
			if o.src != nil {
				for _, d := range o.src.Diagnostics {
					s += " | " + formula.FormatDiagnostic(o.src, d)
				}
			}
			// the caller looks at what the failed parse handed back a little later: it is the caller's own
			sched.Point("harness:before-reading-the-returned-tree")
			func() {
				defer func() {
					if recover() != nil {
						s += " | tree: not walkable"
					}
				}()
				s += " | tree: " + dumpTree(o.src)
			}()
			return s
		}
	case "shared-runner":
		// control only: two threads deliberately share one runner and assign the same local
		return func() string {
			p, _ := cachedParse(fmt.Sprintf("$k = %d, $j = $k + 1, $j", idx*10))
			o := safeResolve(c09ControlRunner, bg, p.Expression)
			return showExact(o.val)
		}
	}
	return func() string { return "unknown body " + name }
}

// cachedParseC09 parses each text once, before any thread runs (a shared tree, like the others)
var c09CtxTrees sync.Map

func cachedParseC09(src string) (*formula.SourceCode, error) {
	if v, ok := c09CtxTrees.Load(src); ok {
		return v.(*formula.SourceCode), nil
	}
	o := safeParse([]byte(src))
	if o.panicked || o.err != nil {
		return nil, fmt.Errorf("%v %s", o.err, o.panicMsg)
	}
	v, _ := c09CtxTrees.LoadOrStore(src, o.src)
	return v.(*formula.SourceCode), nil
}

var c09ControlRunner *formula.Runner

var c09Sequential = map[string]string{}

func sequentialObs(name string) string {
	if s, ok := c09Sequential[name]; ok {
		return s
	}
	s := C09Body(name)()
	c09Sequential[name] = s
	return s
}

// C09Scenarios lists the thread-body combinations.
func C09Scenarios(quick bool) [][]string {
	var sc [][]string
	trees := []int{0, 1, 2, 3, 4, 5}
	for _, t := range trees {
		e, f := fmt.Sprintf("eval:%d", t), fmt.Sprintf("fields:%d", t)
		sc = append(sc, []string{e, e}, []string{e, f}, []string{f, f}, []string{e, fmt.Sprintf("parse:%d", t%3)}, []string{e, fmt.Sprintf("bad:%d", t%3)}, []string{f, fmt.Sprintf("bad:%d", (t+1)%3)})
	}
	sc = append(sc, []string{"parse:0", "parse:1"}, []string{"parse:2", "bad:0"}, []string{"bad:1", "bad:2"}, []string{"bad:0", "bad:0"}, []string{"eval:0", "eval:3"}, []string{"eval:1", "eval:4"})
	// data-dependent trees, each thread with its own data variant, evaluated twice
	for _, t := range []int{6, 7, 8} {
		sc = append(sc, []string{fmt.Sprintf("eval2:%d:0", t), fmt.Sprintf("eval2:%d:1", t)}, []string{fmt.Sprintf("eval2:%d:2", t), fmt.Sprintf("eval2:%d:2", t)}, []string{fmt.Sprintf("eval2:%d:1", t), fmt.Sprintf("eval:%d:2", t)})
	}
	for _, t := range []int{9, 10, 11} {
		sc = append(sc, []string{fmt.Sprintf("eval2:%d:0", t), fmt.Sprintf("eval2:%d:1", t)}, []string{fmt.Sprintf("eval2:%d:1", t), fmt.Sprintf("eval2:%d:2", t)}, []string{fmt.Sprintf("eval:%d:2", t), fmt.Sprintf("eval2:%d:0", t)})
	}
	sc = append(sc, []string{"eval:9:1", "eval:9:2", "eval:4"}, []string{"!cold", "eval:10:0", "eval:10:1"})
	sc = append(sc, []string{"eval:12:0", "eval:12:1"}, []string{"eval2:12:1", "eval:12:0"}, []string{"eval:12:0", "eval:2", "eval:12:1"})
	sc = append(sc, []string{"eval:13:3", "eval:13:3"}, []string{"eval2:13:3", "eval:13:3"}, []string{"eval:13:3", "eval:3"})
	sc = append(sc, []string{"eval:16:3", "eval:16:3"})
	sc = append(sc, []string{"eval:20:5", "eval:20:5"}, []string{"eval2:20:5", "eval:20:5"}, []string{"bad:5", "bad:6"}, []string{"bad:5", "bad:5"}, []string{"bad:7", "bad:6"})
	sc = append(sc, []string{"eval2:17:4", "eval:4"}, []string{"eval:17:4", "eval:4", "eval:4"}, []string{"eval:18", "eval:19"}, []string{"eval2:18", "eval:19"}, []string{"eval:19", "eval:19"})
	if !quick {
		sc = append(sc, []string{"eval2:16:3", "fields:16"})
	}
	sc = append(sc, []string{"ctxtext:0", "ctxtext:0"}, []string{"ctxtext:1", "ctxtext:2"})
	sc = append(sc, []string{"own:14", "own:14"}, []string{"own:14", "eval:14"}, []string{"own:15", "own:15"}, []string{"own:15", "fields:15"})
	sc = append(sc, []string{"parse:3", "parse:4"}, []string{"parse:3", "bad:3"}, []string{"bad:3", "bad:4"}, []string{"eval:6:0", "parse:4"})
	// cold start: the shared trees are parsed anew before every execution, so that the very first
	// evaluations of a tree are the concurrent ones (lazily filled per-node state is cold)
	sc = append(sc, []string{"!cold", "eval:0", "eval:0"}, []string{"!cold", "eval:3", "fields:3"}, []string{"!cold", "eval:6:0", "eval:6:1"}, []string{"!cold", "eval:4", "eval:1"})
	// three threads
	sc = append(sc, []string{"eval:0", "eval:0", "fields:0"}, []string{"eval:3", "fields:3", "parse:0"}, []string{"eval:4", "parse:1", "bad:0"})
	if !quick {
		sc = append(sc, []string{"eval:1", "eval:1", "fields:1"}, []string{"eval:2", "fields:2", "bad:1"}, []string{"eval:5", "parse:2", "parse:0"}, []string{"eval:0", "eval:1", "eval:2"})
	}
	return sc
}

// threadsOf strips scenario markers ("!cold") from a scenario.
func threadsOf(sc []string) (threads []string, cold bool) {
	for _, n := range sc {
		if n == "!cold" {
			cold = true
			continue
		}
		threads = append(threads, n)
	}
	return
}

func judgeSched(c SchedCase) *eng.Fail {
	if !setYieldHook(sched.Point) {
		return eng.F("harness/not-instrumented", "this binary was built without the yield-point overlay")
	}
	setBlockHook(sched.Block)
	disableStepHook()
	if c09Shared == nil {
		if err := C09Setup(); err != nil {
			return eng.F("harness/setup", "%v", err)
		}
	}
	threads, cold := threadsOf(c.Threads)
	for _, n := range threads {
		if obs := sequentialObs(n); strings.HasPrefix(obs, "own-list-changed") {
			delete(c09Sequential, n)
			return eng.F("C09/result-not-owned", "%s (even without interleaving): %s", n, tail200(obs))
		} else if strings.Contains(obs, sched.BlockedForever) {
			delete(c09Sequential, n)
			return eng.F("C09/deadlock", "%s, run alone after the other bodies of this scenario had run alone, waits forever for a lock that an earlier call left locked: %s", n, tail200(obs))
		}
	}
	if cold {
		if err := C09Setup(); err != nil {
			return eng.F("harness/setup", "%v", err)
		}
	}
	bodies := make([]func() string, len(threads))
	for i, n := range threads {
		bodies[i] = C09Body(n)
	}
	resetPools()
	x := sched.Run(bodies, c.Schedule, 5*time.Second)
	if x.Stalled {
		return nil
	}
	if x.Diverged != "" {
		return eng.F("harness/schedule-diverged", "replaying the schedule diverged: %s", x.Diverged)
	}
	return schedVerdict(threads, x)
}

func schedVerdict(threads []string, x *sched.Exec) *eng.Fail {
	if x.Deadlocked {
		return eng.F("C09/deadlock", "threads %v deadlocked: no thread could proceed", threads)
	}
	for i, n := range threads {
		if strings.Contains(x.Obs[i], sched.BlockedForever) {
			return eng.F("C09/deadlock", "thread %d (%s) waits forever for a lock that an earlier call left locked: %s", i, n, tail200(x.Obs[i]))
		}
		if x.Obs[i] != c09Sequential[n] {
			return eng.F("C09/result-differs", "thread %d (%s) observed\n  %s\nsequentially it observes\n  %s", i, n, tail200(x.Obs[i]), tail200(c09Sequential[n]))
		}
	}
	if msg := C09SharedUnchanged(); msg != "" {
		return eng.F("C09/shared-tree-changed", "%s", msg)
	}
	// sequential probes after the schedule: the interleaving must not have left hidden state behind
	done := map[string]bool{}
	for _, n := range threads {
		if done[n] {
			continue
		}
		done[n] = true
		if got := C09Body(n)(); strings.Contains(got, sched.BlockedForever) {
			return eng.F("C09/deadlock", "after this schedule, %s run alone waits forever for a lock that was left locked: %s", n, tail200(got))
		} else if got != c09Sequential[n] {
			return eng.F("C09/state-left-behind", "after this schedule, %s run alone observes\n  %s\ninstead of\n  %s", n, tail200(got), tail200(c09Sequential[n]))
		}
	}
	return nil
}

func runC09(w *eng.W) {
	W = w
	if !setYieldHook(sched.Point) {
		w.Cap("leg A not run: instrumented build unavailable")
		return
	}
	setBlockHook(sched.Block)
	if err := C09Setup(); err != nil {
		w.FailRaw("setup", err.Error(), eng.F("harness/setup", "%v", err))
		return
	}
	disableStepHook() // the step budget is C01/C03's oracle; here executions are counted by schedule
	q := w.Quick()
	scenarios := C09Scenarios(q)
	w.Text("scenarios", fmt.Sprint(len(scenarios)))
	for si, sc := range scenarios {
		if !w.Take() {
			continue
		}
		heavy := false // parse bodies have ~5x the scheduling points of evaluations
		for _, n := range sc {
			if strings.HasPrefix(n, "parse") || strings.HasPrefix(n, "bad") || strings.HasPrefix(n, "eval2") || strings.HasPrefix(n, "eval:20") {
				heavy = true
			}
		}
		bound := 2
		if q && (len(sc) == 3 || heavy) {
			bound = 1
		}
		if !q && len(sc) == 2 && !heavy {
			bound = 3
		}
		if v := os.Getenv("VERIF_C09_BOUND"); v != "" {
			fmt.Sscan(v, &bound)
		}
		full := sc
		sc, cold := threadsOf(full)
		leftLocked := false
		for _, n := range sc {
			if obs := sequentialObs(n); strings.Contains(obs, sched.BlockedForever) {
				delete(c09Sequential, n)
				leftLocked = true
			}
		}
		if leftLocked {
			// reported (and re-judged) through the ordinary case path
			c09Sched.Do(w, SchedCase{Threads: full, Bound: bound})
			continue
		}
		outcomes := map[string]bool{}
		failed := false
		ex := &sched.Explorer{
			Bound: bound,
			Stall: 5 * time.Second,
			// a thread that waits on a primitive the scheduler does not model (a channel) stalls the execution: such
			// a scenario is given up after three stalls and reported as not exhaustive; the free-running pass covers it
			MaxStalls: 3,
			Bodies: func() []func() string {
				resetPools() // every execution starts from the same (empty) pool state
				if cold {
					C09Setup()
				}
				b := make([]func() string, len(sc))
				for i, n := range sc {
					b[i] = C09Body(n)
				}
				return b
			},
			Stop: w.Expired,
		}
		first := true
		ex.Check = func(x *sched.Exec, schedule []int) bool {
			w.Trans(int64(len(x.Points)))
			w.State(int64(len(x.Points)))
			w.Trace(1)
			w.Eval(1)
			key := strings.Join(x.Obs, "\x00")
			if !outcomes[key] {
				outcomes[key] = true
				w.Outcome(fmt.Sprint(si) + key)
			}
			c := SchedCase{Threads: full, Schedule: append([]int(nil), schedule...), Bound: bound}
			if first {
				first = false
				w.Sample("schedule", c)
				// determinism guard: replaying the same schedule gives the same observations
				y := sched.Run(ex.Bodies(), c.Schedule, 5*time.Second)
				if strings.Join(y.Obs, "\x00") != key || y.Diverged != "" {
					w.FailRaw("schedule", c, eng.F("harness/nondeterministic-replay", "replaying one schedule gave different observations: %s", y.Diverged))
					return false
				}
			}
			if f := schedVerdict(sc, x); f != nil {
				// believed only if it reproduces (Do re-judges five times)
				c09Sched.Do(w, c)
				failed = true
				return false
			}
			return true
		}
		t0 := time.Now()
		ex.Explore()
		if os.Getenv("VERIF_C09_VERBOSE") != "" {
			fmt.Fprintf(os.Stderr, "scenario %v bound %d: %d schedules, max %d points, %.1fs\n", sc, bound, ex.Schedules, ex.MaxPoints, time.Since(t0).Seconds())
		}
		if ex.Diverged != "" {
			w.FailRaw("schedule", SchedCase{Threads: full, Bound: bound}, eng.F("harness/schedule-diverged", "scenario %v: %s", full, ex.Diverged))
		}
		w.Note("schedules", ex.Schedules)
		w.Note(fmt.Sprintf("schedules_bound%d_%dthreads", bound, len(sc)), ex.Schedules)
		w.NoteMax("max:points_per_execution", int64(ex.MaxPoints))
		w.Note("stalled_schedules", ex.Stalls)
		if ex.Stalls > 0 {
			w.Cap(fmt.Sprintf("scenario %v: %d schedules stalled on a primitive outside the scheduler", sc, ex.Stalls))
		}
		if w.Expired() {
			w.Cap(fmt.Sprintf("deadline during scenario %v (bound %d)", sc, bound))
		}
		_ = failed
	}
	// control: two threads share ONE runner; several outcomes must appear
	if w.First() {
		// parse the control formulas outside the exploration (a parse inside the first execution only
		// would make executions differ)
		cachedParse("$k = 10, $j = $k + 1, $j")
		cachedParse("$k = 20, $j = $k + 1, $j")
		outs := map[string]bool{}
		ex := &sched.Explorer{Bound: 2, Stall: 5 * time.Second,
			Bodies: func() []func() string {
				resetPools()
				c09ControlRunner = formula.NewRunner()
				c09ControlRunner.SetThis(map[string]interface{}{})
				return []func() string{C09Body("shared-runner:1"), C09Body("shared-runner:2")}
			},
			Check: func(x *sched.Exec, _ []int) bool { outs[strings.Join(x.Obs, " / ")] = true; return true },
		}
		ex.Explore()
		w.Note("control_shared_runner_schedules", ex.Schedules)
		w.Note("control_shared_runner_distinct_outcomes", int64(len(outs)))
		if len(outs) < 2 {
			w.FailRaw("control", "shared-runner", eng.F("harness/vacuous-scheduler", "the control scenario (two threads sharing one runner) produced %d outcome(s) in %d schedules: the scheduler does not interleave inside an evaluation", len(outs), ex.Schedules))
		}
	}
}

// c09Post runs leg B (free-running race pass) from the parent and merges its report.
func c09Post(p *eng.Parent) {
	bin := os.Getenv("VERIF_VRACE")
	if bin == "" {
		p.Res.Capped = append(p.Res.Capped, "leg B (race detector pass) not run: no -race binary")
		p.Extra["leg_b"] = "not run"
		return
	}
	iters := "150"
	if p.Tier == "thorough" {
		iters = "1500"
	}
	// the free-running pass has no scheduler that could notice a deadlock: a time limit stands in for it
	limit := 10 * time.Minute
	if p.Tier == "thorough" {
		limit = 40 * time.Minute
	}
	ctx, cancel := context.WithTimeout(context.Background(), limit)
	defer cancel()
	cmd := exec.CommandContext(ctx, bin, iters)
	cmd.Env = append(os.Environ(), "GORACE=halt_on_error=1 exitcode=66", "TZ=UTC")
	out, err := cmd.CombinedOutput()
	if ctx.Err() != nil {
		p.Res.FailRawParent("race", map[string]interface{}{"leg": "B", "iterations": iters}, eng.F("C09/deadlock", "the free-running pass (bodies in up to 16 goroutines) did not finish within %v: goroutines wait for each other or for a lock that is never released", limit))
		p.Extra["leg_b"] = "timed out"
		return
	}
	var rep map[string]interface{}
	lines := strings.Split(strings.TrimSpace(string(out)), "\n")
	if len(lines) > 0 {
		json.Unmarshal([]byte(lines[len(lines)-1]), &rep)
	}
	if err != nil || rep == nil || rep["ok"] != true {
		msg := string(out)
		if len(msg) > 3000 {
			msg = msg[:3000]
		}
		key := "C09/race-pass-failed"
		if strings.Contains(msg, "DATA RACE") {
			key = "C09/data-race"
		}
		p.Res.FailRawParent("race", map[string]interface{}{"leg": "B", "iterations": iters}, eng.F(key, "free-running race pass failed (%v):\n%s", err, msg))
		p.Extra["leg_b"] = "failed"
		return
	}
	p.Extra["leg_b"] = rep
	p.Extra["leg_b_note"] = "leg B samples schedules under the race detector; it is a complement, the exhaustive claim is leg A's preemption bound"
}

// C09DeepBarrier evaluates one shared, deeply nested formula from g goroutines that all meet
// at a barrier host function at the innermost nesting level, then compares every result with
// the sequential one. Used by leg B (free-running).
func C09DeepBarrier(g, depth int) (int, string) {
	src := strings.Repeat("(", depth) + "hold() + 1" + strings.Repeat(")", depth) + " * 2 + len(s)"
	p := safeParse([]byte(src))
	if p.panicked || p.err != nil {
		return 0, fmt.Sprintf("deep formula does not parse: %v %s", p.err, p.panicMsg)
	}
	eval := func(hold func() (float64, error)) string {
		r := formula.NewRunner()
		d := c08Data()
		d["hold"] = hold
		r.SetThis(d)
		o := safeResolve(r, bg, p.src.Expression)
		switch {
		case o.panicked:
			return "panic:" + o.panicMsg
		case o.err != nil:
			return "error:" + o.err.Error()
		}
		return showExact(o.val)
	}
	seq := eval(func() (float64, error) { return 41, nil })
	var wg sync.WaitGroup
	var arrived sync.WaitGroup
	arrived.Add(g)
	res := make([]string, g)
	for i := 0; i < g; i++ {
		i := i
		wg.Add(1)
		go func() {
			defer wg.Done()
			reached := false
			res[i] = eval(func() (float64, error) {
				reached = true
				arrived.Done()
				arrived.Wait() // everybody is at the innermost level now
				return 41, nil
			})
			if !reached {
				arrived.Done() // an evaluation that failed before the barrier must not hold the others up
			}
		}()
	}
	wg.Wait()
	for i, r := range res {
		if r != seq {
			return g, fmt.Sprintf("deep shared formula (depth %d, %d goroutines inside at once): goroutine %d observed %s, sequentially %s", depth, g, i, tail200(r), tail200(seq))
		}
	}
	return g, ""
}
