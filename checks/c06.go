package checks

import (
	"context"
	"fmt"
	"math"
	"reflect"
	"strconv"
	"strings"
	"time"

	formula "github.com/aundis/formula"
	"github.com/ericlagergren/decimal"

	"verif/internal/eng"
	"verif/internal/ref"
)

// cval is one condition / branch value with its reference meaning.
type cval struct {
	Expr   string
	Truthy bool
	Null   bool   // null for ??
	NegOK  bool   // `!x` is defined by the statement (booleans, numbers, null)
	CoalOK bool   // `??` expectation defined (typed nil pointers are left open)
	Kind   string // num str bool null obj
	Num    ref.Dec
	NaN    bool
	Inf    int
	Str    string
	Bool   bool
	Obj    interface{} // identity for arrays / maps / funcs / times
}

// SelCase: a formula built from the value tables; Want indexes the expected operand.
type SelCase struct {
	Src  string `json:"src"`
	Want int    `json:"want"` // index into selVals, -1 = boolean true, -2 = boolean false
	Rec  string `json:"rec,omitempty"`
}

var c06Sel *eng.Kind[SelCase]

func init() {
	c := eng.Register(&eng.Check{
		ID:          "C06",
		Title:       "One notion of truthiness drives every selection operator",
		Rule:        "34 condition values (three nulls, booleans, numbers incl. 0, -0, 0.0, NaN, infinities, strings incl. '' and '0', arrays, maps, times, functions, structs) x 10 branch sentinels of every kind: !!c, !c, c?a:b, c&&b, c||b, c??b and every depth-2 nesting of two of them; branch evaluation of ?: observed through recording host functions and through local assignments; result must be the selected operand unchanged (numbers by value, arrays/maps by identity); distinct = distinct (formula shape, selected operand) classes",
		TrustedBase: []string{"truthiness table written from the statement in checks/c06.go"},
		Assumptions: []string{"side effects of the operands of && || ?? are not judged (only ?: must be lazy)", "computed operands (results of operators and builtins) are classified by the value they are observed to have"},
		Run:         runC06,
	})
	c06Sel = eng.NewKind(c, "select", judgeSel)
	c06Obs = eng.NewKind(c, "observed", judgeObs)
	c06Once = eng.NewKind(c, "once", judgeOnce)
	c06Compact = eng.NewKind(c, "compact", judgeCompact)
	c06Preset = eng.NewKind(c, "preset-locals", judgePreset)
	c06Ctx = eng.NewKind(c, "context", judgeCtx)
	c06Same = eng.NewKind(c, "same-spelling", judgeSame)
	c06Reuse = eng.NewKind(c, "tree-reuse", judgeReuse)
}

var selVals []cval
var selNC int // the first selNC values are conditions, all are usable as branches
var selArr = []interface{}{1.0, "x"}
var selMap = map[string]interface{}{"k": 1.0}
var selEmptyMap = map[string]interface{}{}
var selTime = time.Date(2020, 1, 2, 3, 4, 5, 0, time.UTC)
var selFunc = func() (int, error) { return 1, nil }
var selEmptyArr = []interface{}{}
var selArr0 = []interface{}{0.0}

func selData() map[string]interface{} {
	var ip *int
	return map[string]interface{}{
		"nil1": nil, "nilp": ip, "nild": (*decimal.Big)(nil), "dnan": math.NaN(), "dinf": math.Inf(1), "dninf": math.Inf(-1), "dzero": 0.0, "dnegzero": math.Copysign(0, -1),
		"earr": selEmptyArr, "arr0": selArr0, "emap": selEmptyMap, "map": selMap, "zt": time.Time{}, "tm": selTime, "fn": selFunc,
		"st": zooStruct{A: 1}, "sarr": selArr, "istr": "", "i0": 0, "i5": int64(5),
		"h0": func() (int, error) { return 0, nil }, "hf0": func() (float64, error) { return 0, nil }, "hs": func() (string, error) { return "", nil },
		"hnil": func() (interface{}, error) { return nil, nil }, "hfalse": func() (bool, error) { return false, nil }, "hnan": func() (float64, error) { return math.NaN(), nil },
		"h32": func() (int32, error) { return 0, nil },
		"hnp": func() (*int, error) { return nil, nil }, "hnd": func() (*decimal.Big, error) { return nil, nil }, "hni": func() (interface{}, error) { return (*decimal.Big)(nil), nil },
	}
}

func buildSelVals() {
	if selVals != nil {
		return
	}
	num := func(expr, val string, truthy bool) cval {
		d, _ := ref.ParseDec(val)
		return cval{Expr: expr, Truthy: truthy, Kind: "num", Num: d, NegOK: true, CoalOK: true}
	}
	str := func(expr, s string) cval {
		return cval{Expr: expr, Truthy: s != "", Kind: "str", Str: s, CoalOK: true}
	}
	d := selData()
	conds := []cval{
		{Expr: "null", Null: true, Kind: "null", NegOK: true, CoalOK: true},
		{Expr: "nil1", Null: true, Kind: "null", NegOK: true, CoalOK: true},
		{Expr: "nilp", Null: true, Kind: "null", NegOK: true, CoalOK: true}, // a typed nil pointer is null (C16)
		{Expr: "nild", Null: true, Kind: "null", NegOK: true, CoalOK: true}, // also when it points to the number type
		{Expr: "missing", Null: true, Kind: "null", NegOK: true, CoalOK: true},
		{Expr: "true", Truthy: true, Kind: "bool", Bool: true, NegOK: true, CoalOK: true},
		{Expr: "false", Kind: "bool", NegOK: true, CoalOK: true},
		num("0", "0", false), num("(-0)", "-0", false), num("0.0", "0.0", false), num("0e5", "0", false),
		num("1", "1", true), num("(-1)", "-1", true), num("0.5", "0.5", true), num("1e-30", "1e-30", true),
		num("1e-400", "1e-400", true), num("(-1e-400)", "-1e-400", true), num("(1e-200*1e-200)", "1e-400", true), num("1e400", "1e400", true), num("(0*1e-400)", "0", false),
		num("dzero", "0", false), num("dnegzero", "0", false), num("i0", "0", false), num("i5", "5", true),
		{Expr: "(0/0)", Kind: "num", NaN: true, NegOK: true, CoalOK: true},
		{Expr: "dnan", Kind: "num", NaN: true, NegOK: true, CoalOK: true},
		{Expr: "(1/0)", Truthy: true, Kind: "num", Inf: 1, NegOK: true, CoalOK: true},
		{Expr: "dninf", Truthy: true, Kind: "num", Inf: -1, NegOK: true, CoalOK: true},
		str("''", ""), str("istr", ""), str("'0'", "0"), str("'a'", "a"), str("' '", " "), str("'false'", "false"),
		{Expr: "[]", Truthy: true, Kind: "emptyarr", CoalOK: true},
		{Expr: "($e = [])", Truthy: true, Kind: "emptyarr", CoalOK: true},
		{Expr: "earr", Truthy: true, Kind: "obj", Obj: d["earr"], CoalOK: true},
		{Expr: "arr0", Truthy: true, Kind: "obj", Obj: d["arr0"], CoalOK: true},
		{Expr: "emap", Truthy: true, Kind: "obj", Obj: selEmptyMap, CoalOK: true},
		{Expr: "map", Truthy: true, Kind: "obj", Obj: selMap, CoalOK: true},
		{Expr: "zt", Truthy: true, Kind: "obj", Obj: time.Time{}, CoalOK: true},
		{Expr: "tm", Truthy: true, Kind: "obj", Obj: selTime, CoalOK: true},
		{Expr: "fn", Truthy: true, Kind: "obj", Obj: selFunc, CoalOK: true},
		{Expr: "st", Truthy: true, Kind: "obj", Obj: zooStruct{A: 1}, CoalOK: true},
	}
	selNC = len(conds)
	branches := []cval{
		num("7.50", "7.5", true),
		str("'br'", "br"),
		{Expr: "sarr", Truthy: true, Kind: "obj", Obj: selArr, CoalOK: true},
		num("(-3)", "-3", true),
	}
	selVals = append(conds, branches...)
}

func sameSlice(a, b interface{}) bool {
	va, vb := reflect.ValueOf(a), reflect.ValueOf(b)
	if va.Kind() != reflect.Slice || vb.Kind() != reflect.Slice {
		return false
	}
	return va.Len() == vb.Len() && va.Pointer() == vb.Pointer()
}

// matches reports whether got (an element of the result array) is the value v unchanged.
func matches(got interface{}, v *cval) bool {
	switch v.Kind {
	case "null":
		return formula.IsNull(got)
	case "bool":
		b, ok := got.(bool)
		return ok && b == v.Bool
	case "str":
		s, ok := got.(string)
		return ok && s == v.Str
	case "num":
		d, ok := decOf(got)
		if !ok {
			return false
		}
		if v.NaN {
			return d.NaN
		}
		if v.Inf != 0 {
			return d.Inf && d.Neg == (v.Inf < 0)
		}
		return d.Finite() && d.Cmp(v.Num) == 0
	case "emptyarr":
		a, ok := got.([]interface{})
		return ok && len(a) == 0
	case "obj":
		switch o := v.Obj.(type) {
		case []interface{}:
			return sameSlice(got, o)
		case map[string]interface{}:
			m, ok := got.(map[string]interface{})
			return ok && reflect.ValueOf(m).Pointer() == reflect.ValueOf(o).Pointer()
		case time.Time:
			t, ok := got.(time.Time)
			return ok && t.Equal(o) && t.Location() == o.Location()
		case zooStruct:
			s, ok := got.(zooStruct)
			return ok && s == o
		default:
			if reflect.TypeOf(v.Obj).Kind() == reflect.Func {
				return got != nil && reflect.TypeOf(got).Kind() == reflect.Func && reflect.ValueOf(got).Pointer() == reflect.ValueOf(v.Obj).Pointer()
			}
		}
	}
	return false
}

func judgeSel(c SelCase) *eng.Fail {
	buildSelVals()
	data := selData()
	var calls []string
	data["T"] = func() (string, error) { calls = append(calls, "T"); return "t", nil }
	data["F"] = func() (string, error) { calls = append(calls, "F"); return "f", nil }
	p := safeParse([]byte(c.Src))
	if p.panicked || p.err != nil {
		return eng.F("C06/parse", "%s: %v %s", c.Src, p.err, p.panicMsg)
	}
	r := formula.NewRunner()
	r.SetThis(data)
	o := safeResolve(r, bg, p.src.Expression)
	if o.panicked || o.err != nil {
		return eng.F("C06/eval", "%s: evaluation failed: %v %s", c.Src, o.err, o.panicMsg)
	}
	arr, ok := o.val.([]interface{})
	if !ok || len(arr) != 1 {
		return eng.F("C06/eval", "%s: result %s", c.Src, show(o.val))
	}
	got := arr[0]
	switch {
	case c.Rec != "":
		// recording forms: Rec lists the expected invocations / assigned locals
		if strings.HasPrefix(c.Rec, "calls:") {
			if strings.Join(calls, ",") != strings.TrimPrefix(c.Rec, "calls:") {
				return eng.F("C06/branch-evaluation", "%s: branch functions invoked: [%s], expected [%s]", c.Src, strings.Join(calls, ","), strings.TrimPrefix(c.Rec, "calls:"))
			}
		} else {
			want := strings.TrimPrefix(c.Rec, "locals:")
			var have []string
			for _, k := range []string{"$f", "$t"} {
				if _, ok := data[k]; ok {
					have = append(have, k)
				}
			}
			if strings.Join(have, ",") != want {
				return eng.F("C06/branch-evaluation", "%s: locals assigned: [%s], expected [%s]", c.Src, strings.Join(have, ","), want)
			}
		}
	case c.Want == -1 || c.Want == -2:
		b, ok := got.(bool)
		if !ok || b != (c.Want == -1) {
			return eng.F("C06/truthiness", "%s = %s, expected %v", c.Src, show(got), c.Want == -1)
		}
	default:
		v := &selVals[c.Want]
		if !matches(got, v) {
			return eng.F("C06/selected-operand", "%s = %s, expected the operand %s unchanged", c.Src, show(got), v.Expr)
		}
	}
	return nil
}

// ObsCase: a computed operand E. Its value is observed on its own ([E]); every selection operator must
// then treat E according to the truthiness of that very value, and hand it back unchanged.
type ObsCase struct {
	E string `json:"e"`
}

var c06Obs *eng.Kind[ObsCase]

// observedTruthiness classifies a value that came out of the evaluator: ok=false when the statement
// has no opinion (Go kinds it does not mention).
func observedTruthiness(v interface{}) (truthy, isNull, ok bool) {
	switch n := v.(type) {
	case nil:
		return false, true, true
	case bool:
		return n, false, true
	case string:
		return n != "", false, true
	case int:
		return n != 0, false, true
	case int32:
		return n != 0, false, true
	case int64:
		return n != 0, false, true
	case float64:
		return n != 0 && n == n, false, true
	case float32:
		return n != 0 && n == n, false, true
	case []interface{}, map[string]interface{}, time.Time:
		return true, false, true
	}
	if d, isNum := decOf(v); isNum {
		return !(d.NaN || (d.Finite() && d.IsZero())), false, true
	}
	if formula.IsNull(v) {
		return false, true, true
	}
	return false, false, false
}

func sameObserved(a, b interface{}) bool {
	da, oka := decOf(a)
	db, okb := decOf(b)
	if oka || okb {
		return oka && okb && (da.NaN && db.NaN || da.Inf && db.Inf && da.Neg == db.Neg || da.Finite() && db.Finite() && da.Cmp(db) == 0)
	}
	if fa, ok := a.(float64); ok && fa != fa {
		fb, ok := b.(float64)
		return ok && fb != fb
	}
	return canonImpl(a) == canonImpl(b)
}

func judgeObs(c ObsCase) *eng.Fail {
	E := "(" + c.E + ")"
	ev := func(src string) (evalOut, *eng.Fail) {
		p := safeParse([]byte(src))
		if p.panicked || p.err != nil {
			return evalOut{}, eng.F("C06/parse", "%s: %v %s", src, p.err, p.panicMsg)
		}
		r := formula.NewRunner()
		r.SetThis(selData())
		return safeResolve(r, bg, p.src.Expression), nil
	}
	o, f := ev("[" + E + "]")
	if f != nil {
		return f
	}
	if o.panicked {
		return eng.F("C06/eval", "[%s]: panic %s", E, o.panicMsg)
	}
	if o.err != nil {
		outcome("operand is an error")
		return nil
	}
	arr, _ := o.val.([]interface{})
	if len(arr) != 1 {
		return eng.F("C06/eval", "[%s]: %s", E, show(o.val))
	}
	val := arr[0]
	truthy, isNull, ok := observedTruthiness(val)
	if !ok {
		outcome("operand of a kind the statement does not mention")
		return nil
	}
	o2, f := ev("[!!" + E + ", " + E + " ? 'T' : 'F', " + E + " && 'B', " + E + " || 'B', " + E + " ?? 'B', !!" + E + " === !!(" + E + "), (" + E + " ? 1 : 0) + (" + E + " ? 0 : 1)]")
	if f != nil {
		return f
	}
	if o2.panicked || o2.err != nil {
		return eng.F("C06/eval", "selection over %s (observed value %s): %v %s", E, show(val), o2.err, o2.panicMsg)
	}
	got, _ := o2.val.([]interface{})
	if len(got) != 7 {
		return eng.F("C06/eval", "selection over %s: %s", E, show(o2.val))
	}
	what := fmt.Sprintf("%s evaluates to %s, which is %s", c.E, show(val), map[bool]string{true: "truthy", false: "falsy"}[truthy])
	if got[0] != interface{}(truthy) {
		return eng.F("C06/observed-truthiness", "%s, but !!%s = %s", what, E, show(got[0]))
	}
	if want := map[bool]string{true: "T", false: "F"}[truthy]; got[1] != interface{}(want) {
		return eng.F("C06/observed-truthiness", "%s, but %s ? 'T' : 'F' = %s", what, E, show(got[1]))
	}
	if truthy && got[2] != interface{}("B") || !truthy && !sameObserved(got[2], val) {
		return eng.F("C06/observed-selection", "%s, but %s && 'B' = %s", what, E, show(got[2]))
	}
	if !truthy && got[3] != interface{}("B") || truthy && !sameObserved(got[3], val) {
		return eng.F("C06/observed-selection", "%s, but %s || 'B' = %s", what, E, show(got[3]))
	}
	if isNull && got[4] != interface{}("B") || !isNull && !sameObserved(got[4], val) {
		return eng.F("C06/observed-selection", "%s (null: %v), but %s ?? 'B' = %s", what, isNull, E, show(got[4]))
	}
	outcome(fmt.Sprint("observed ", truthy, isNull))
	return nil
}

var c06Preset *eng.Kind[ObsCase]

// judgePreset: E is "formula NUL expected canonical value"; the data map carries $rate = 0.25 and $seen = 'before'.
func judgePreset(c ObsCase) *eng.Fail {
	parts := strings.SplitN(c.E, "\x00", 2)
	if len(parts) != 2 {
		return eng.F("harness/case", "bad case")
	}
	data := selData()
	data["$rate"], data["$seen"] = 0.25, "before"
	data["u0"], data["i16z"], data["u5"] = uint8(0), int16(0), uint16(5)
	data["up0"], data["up3"] = uintptr(0), uintptr(3)
	o, err := evalWith("[("+parts[0]+")]", data)
	if err != nil || o.panicked || o.err != nil {
		return eng.F("C06/eval", "%s: %v %v %s", parts[0], err, o.err, o.panicMsg)
	}
	if got := show(o.val); got != "["+parts[1]+"]" {
		return eng.F("C06/unselected-branch-took-effect", "with $rate = 0.25 and $seen = 'before' in the data, %s = %s, expected %s (only a selected branch is evaluated, so only its assignments happen)", parts[0], got, parts[1])
	}
	outcome("preset " + parts[1])
	return nil
}

var c06Ctx *eng.Kind[ObsCase]

// c06NilCtx: a pointer type that implements context.Context; a nil pointer of it is a typed nil
type c06NilCtx struct{ context.Context }

// SameCase: a selection whose two operands are spelled alike (Form with %A and %B, both replaced by
// Spell) against the same selection with the second operand spelled differently (an alias of the
// same stateful host function): value and number of invocations must not depend on the spelling.
type SameCase struct {
	Form  string `json:"form"`
	Spell string `json:"spell"` // text of operand A; B is the same text (or its alias, for the comparison)
	Alias string `json:"alias"`
	Start int    `json:"start"` // the counter's first value
}

var c06Same *eng.Kind[SameCase]

func judgeSame(c SameCase) *eng.Fail {
	run := func(a, b string) (string, int, *eng.Fail) {
		n := c.Start - 1
		calls := 0
		next := func(xs ...interface{}) (interface{}, error) { n++; calls++; return float64(n), nil }
		data := map[string]interface{}{"next": next, "nxt2": next, "m": map[string]interface{}{"next": next, "nxt2": next}}
		src := strings.Replace(strings.Replace(c.Form, "%A", a, -1), "%B", b, -1)
		o, err := evalWith(src, data)
		if err != nil || o.panicked || o.err != nil {
			return "", 0, eng.F("C06/eval", "%s: %v %v %s", src, err, o.err, o.panicMsg)
		}
		return src + " = " + show(o.val), calls, nil
	}
	same, sc, f := run(c.Spell, c.Spell)
	if f != nil {
		return f
	}
	diff, dc, f := run(c.Spell, c.Alias)
	if f != nil {
		return f
	}
	if same[strings.LastIndex(same, " = "):] != diff[strings.LastIndex(diff, " = "):] || sc != dc {
		return eng.F("C06/branch-spelled-like-condition", "counter starting at %d: %s after %d invocations, but %s after %d invocations (the second function is the first under another name)", c.Start, same, sc, diff, dc)
	}
	outcome(fmt.Sprint("same ", c.Form, c.Start, sc))
	return nil
}

// ReuseCase: one parsed tree evaluated under a sequence of inputs (context kind, value of c); each result
// must be what a freshly parsed tree gives for that input alone.
type ReuseCase struct {
	Src    string `json:"src"`
	Inputs []int  `json:"inputs"` // indices into c06ReuseInputs
	OneRun bool   `json:"one_runner"`
}

var c06Reuse *eng.Kind[ReuseCase]

type c06Input struct {
	ctx  string
	c    interface{}
	name string
}

var c06ReuseInputs = func() []c06Input {
	var in []c06Input
	for _, k := range []string{"none", "typed-nil", "object"} {
		for i, v := range []interface{}{nil, 0.0, 1.0, "", "a", false, true} {
			in = append(in, c06Input{k, v, fmt.Sprintf("%s/c%d", k, i)})
		}
	}
	return in
}()

func judgeReuse(c ReuseCase) *eng.Fail {
	ctxOf := func(k string) context.Context {
		switch k {
		case "typed-nil":
			return (*c06NilCtx)(nil)
		case "object":
			return context.Background()
		}
		return nil
	}
	p := safeParse([]byte(c.Src))
	if p.panicked || p.err != nil {
		return eng.F("harness/case", "%s does not parse: %v", c.Src, p.err)
	}
	shared := formula.NewRunner()
	var hist []string
	for _, ix := range c.Inputs {
		in := c06ReuseInputs[ix]
		fp := safeParse([]byte(c.Src))
		fr := formula.NewRunner()
		fr.SetThis(map[string]interface{}{"c": in.c, "x": in.c})
		fresh := safeResolve(fr, ctxOf(in.ctx), fp.src.Expression)
		r := shared
		if !c.OneRun {
			r = formula.NewRunner()
		}
		r.SetThis(map[string]interface{}{"c": in.c, "x": in.c})
		o := safeResolve(r, ctxOf(in.ctx), p.src.Expression)
		if o.panicked || fresh.panicked {
			return eng.F("C06/panic", "%s: %s%s", c.Src, o.panicMsg, fresh.panicMsg)
		}
		if (o.err == nil) != (fresh.err == nil) || show(o.val) != show(fresh.val) {
			return eng.F("C06/decision-remembered", "%s, one tree evaluated under %v and then under %s: %s (%v); a freshly parsed tree under %s gives %s (%v)", c.Src, hist, in.name, show(o.val), o.err, in.name, show(fresh.val), fresh.err)
		}
		hist = append(hist, in.name)
	}
	outcome("reuse " + c.Src)
	return nil
}

// judgeCtx: the keyword ctx under a context that is null (no context, or a typed nil pointer) or an object.
func judgeCtx(c ObsCase) *eng.Fail {
	var ctx context.Context
	switch c.E {
	case "typed-nil":
		ctx = (*c06NilCtx)(nil)
	case "object":
		ctx = context.Background()
	}
	src := "[!!ctx, ctx ? 1 : 2, ctx ?? 'd', ctx || 'd', (ctx && 1) == null, ($c = ctx, !$c), ctx == null, ctx === null]"
	want := "[bool:false,num:2,str:\"d\",str:\"d\",bool:true,bool:true,bool:true,bool:true]"
	if c.E == "object" {
		src = "[!!ctx, ctx ? 1 : 2, (ctx ?? 'd') === ctx, (ctx || 'd') === ctx, ctx && 1, ctx == null, ctx === null]"
		want = "[bool:true,num:1,bool:true,bool:true,num:1,bool:false,bool:false]"
	}
	p, err := cachedParse(src)
	if err != nil {
		return eng.F("C06/parse", "%s: %v", src, err)
	}
	o := safeResolve(formula.NewRunner(), ctx, p.Expression)
	if o.panicked || o.err != nil {
		return eng.F("C06/eval", "%s under a %s context: %v %s", src, c.E, o.err, o.panicMsg)
	}
	if got := show(o.val); got != want {
		return eng.F("C06/context-truthiness", "under a %s context %s = %s, expected %s", c.E, src, got, want)
	}
	if c.E != "object" {
		// ! on the keyword itself: null is falsy, so its negation is true
		p2, _ := cachedParse("[!ctx]")
		o2 := safeResolve(formula.NewRunner(), ctx, p2.Expression)
		if o2.panicked || o2.err != nil || show(o2.val) != "[bool:true]" {
			return eng.F("C06/context-truthiness", "under a %s context !ctx = %s %v %s, expected true (ctx is null there: !!ctx is false, ctx ?? 'd' is 'd')", c.E, show(o2.val), o2.err, o2.panicMsg)
		}
	}
	outcome("ctx " + c.E)
	return nil
}

var c06Compact *eng.Kind[ObsCase]

// judgeCompact: E holds two spellings of one formula (with and without blanks), separated by NUL.
func judgeCompact(c ObsCase) *eng.Fail {
	parts := strings.SplitN(c.E, "\x00", 2)
	if len(parts) != 2 {
		return eng.F("harness/case", "bad case")
	}
	var res [2]string
	for i, src := range parts {
		p := safeParse([]byte("[" + src + "]"))
		if p.panicked || p.err != nil {
			if i == 0 {
				return eng.F("C06/parse", "%s: %v %s", src, p.err, p.panicMsg)
			}
			return eng.F("C06/compact-spelling", "%q parses, the same formula written %q does not: %v %s", parts[0], src, p.err, p.panicMsg)
		}
		r := formula.NewRunner()
		r.SetThis(selData())
		o := safeResolve(r, bg, p.src.Expression)
		switch {
		case o.panicked:
			res[i] = "panic " + o.panicMsg
		case o.err != nil:
			res[i] = "error"
		default:
			res[i] = canonImpl(o.val)
		}
	}
	if res[0] != res[1] {
		return eng.F("C06/compact-spelling", "%q = %s but %q = %s", parts[0], res[0], parts[1], res[1])
	}
	outcome("compact " + res[0])
	return nil
}

// OnceCase: an operand with a side effect (an assignment that reads its own variable) under a selection
// operator: whichever operand is handed back, it is the value of ONE evaluation.
type OnceCase struct {
	Op    string `json:"op"`    // && || ?? ?:
	Start string `json:"start"` // initial value of $n
	Step  string `json:"step"`  // the operand: an assignment to $n
}

var c06Once *eng.Kind[OnceCase]

func judgeOnce(c OnceCase) *eng.Fail {
	// reference: evaluate the step once on its own
	o1, err := evalWith("$n = "+c.Start+", ["+c.Step+", $n]", map[string]interface{}{})
	if err != nil || o1.panicked || o1.err != nil {
		return nil // the step itself is not evaluable: nothing to compare
	}
	r1, _ := o1.val.([]interface{})
	if len(r1) != 2 {
		return eng.F("C06/eval", "reference evaluation: %s", show(o1.val))
	}
	stepVal := r1[0]
	truthy, isNull, ok := observedTruthiness(stepVal)
	if !ok {
		return nil
	}
	var src string
	selected := false // is the step the operand that is handed back?
	switch c.Op {
	case "&&":
		src, selected = "("+c.Step+") && 'rhs'", !truthy
	case "||":
		src, selected = "("+c.Step+") || 'rhs'", truthy
	case "??":
		src, selected = "("+c.Step+") ?? 'rhs'", !isNull
	case "?:":
		src, selected = "("+c.Step+") ? 'T' : 'F'", false
	}
	o2, err := evalWith("$n = "+c.Start+", ["+src+", $n]", map[string]interface{}{})
	if err != nil || o2.panicked || o2.err != nil {
		return eng.F("C06/eval", "%s: %v %v %s", src, err, o2.err, o2.panicMsg)
	}
	r2, _ := o2.val.([]interface{})
	if len(r2) != 2 {
		return eng.F("C06/eval", "%s: %s", src, show(o2.val))
	}
	if selected && !sameObserved(r2[0], stepVal) {
		return eng.F("C06/operand-evaluated-twice", "$n = %s: %s evaluates to %s on its own, but %s = %s (the selected operand's value must be handed back unchanged)", c.Start, c.Step, show(stepVal), src, show(r2[0]))
	}
	if c.Op == "?:" {
		if want := map[bool]string{true: "T", false: "F"}[truthy]; r2[0] != interface{}(want) {
			return eng.F("C06/observed-truthiness", "$n = %s: %s = %s, the condition evaluates to %s", c.Start, src, show(r2[0]), show(stepVal))
		}
	}
	// the condition / left operand itself is evaluated exactly once
	if !sameObserved(r2[1], r1[1]) {
		return eng.F("C06/operand-evaluated-twice", "$n = %s: after %s the variable is %s, after one evaluation of %s it is %s", c.Start, src, show(r2[1]), c.Step, show(r1[1]))
	}
	outcome(fmt.Sprint("once ", c.Op, truthy))
	return nil
}

// tv is an expression text with the operand the reference semantics selects.
type tv struct {
	text string
	v    int // index into selVals
	ok   bool
}

func refAnd(a, b tv) tv {
	t := "(" + a.text + " && " + b.text + ")"
	if !selVals[a.v].Truthy {
		return tv{t, a.v, a.ok && b.ok}
	}
	return tv{t, b.v, a.ok && b.ok}
}
func refOr(a, b tv) tv {
	t := "(" + a.text + " || " + b.text + ")"
	if selVals[a.v].Truthy {
		return tv{t, a.v, a.ok && b.ok}
	}
	return tv{t, b.v, a.ok && b.ok}
}
func refCoal(a, b tv) tv {
	t := "(" + a.text + " ?? " + b.text + ")"
	ok := a.ok && b.ok && selVals[a.v].CoalOK
	if selVals[a.v].Null {
		return tv{t, b.v, ok}
	}
	return tv{t, a.v, ok}
}
func refCond(c, a, b tv) tv {
	t := "(" + c.text + " ? " + a.text + " : " + b.text + ")"
	if selVals[c.v].Truthy {
		return tv{t, a.v, c.ok && a.ok && b.ok}
	}
	return tv{t, b.v, c.ok && a.ok && b.ok}
}

// flatRef: "L0 op L1 op L2 ..." grouped by the reference parser and evaluated by the reference semantics.
func flatRef(ops []string, leaves []int) (tv, bool) {
	text := "L0"
	for i, op := range ops {
		text += " " + op + " L" + strconv.Itoa(i+1)
	}
	n, v := ref.Parse([]byte(text))
	if v != ref.Accept {
		return tv{}, false
	}
	var ev func(n *ref.N) (tv, bool)
	ev = func(n *ref.N) (tv, bool) {
		switch n.K {
		case "id":
			k, err := strconv.Atoi(strings.TrimPrefix(n.Val, "L"))
			if err != nil || k >= len(leaves) {
				return tv{}, false
			}
			return tv{selVals[leaves[k]].Expr, leaves[k], true}, true
		case "paren":
			return ev(n.Kids[0])
		case "bin":
			a, ok1 := ev(n.Kids[0])
			b, ok2 := ev(n.Kids[1])
			if !ok1 || !ok2 {
				return tv{}, false
			}
			switch n.Op {
			case "&&":
				return refAnd(a, b), true
			case "||":
				return refOr(a, b), true
			case "??":
				return refCoal(a, b), true
			}
		}
		return tv{}, false
	}
	return ev(n)
}

func runC06(w *eng.W) {
	W = w
	buildSelVals()
	emit := func(leg string, c SelCase) {
		w.State(1)
		w.Trans(1)
		w.Trace(1)
		w.Note("leg:"+leg, 1)
		w.Sample(leg, c)
		outcome(fmt.Sprint(leg, c.Want, c.Rec))
		c06Sel.Do(w, c)
	}
	leaf := func(i int) tv { return tv{selVals[i].Expr, i, true} }
	n := len(selVals)
	bools := func(b bool) int {
		if b {
			return -1
		}
		return -2
	}
	// computed operands: classified by the value they are observed to have
	computed := []string{"+'0'", "-'0'", "+'5'", "+'abc'", "+''", "-'2.5'", "+'0.0'", "-'-0'", "0 * 5", "1 - 1", "0 / 5", "5 % 5", "0.1 + 0.2 - 0.3", "1e-400 * 1e-400", "0 * 1e400", "1 / 3 * 3 - 1",
		"toInt('0')", "toInt(0.9)", "toInt('x')", "toFloat('0')", "toFloat('')", "toFloat('x')", "finite('x')", "finite(0/0)", "round(0.4)", "round(-0.4)", "roundBank(0.5)", "floor(0.9)", "ceil(-0.9)", "abs(0)", "max(0, -1)", "min(0, 1)",
		"sqrt(0)", "ln(1)", "log(1)", "exp(-1e30)", "len('')", "len('a')", "find('abc', 'a')", "find('abc', 'z')", "trim('  ')", "left('abc', 0)", "right('abc', 0)", "mid('abc', 1, 1)", "lower('')", "replace('a', 'a', '')",
		"toString(0)", "toString('')", "toString(null)", "join([], ',')", "join([''], ',')", "startWith('', '')", "contains('a', 'b')", "includes([], 'a')", "regexp('', '^$')", "mapToArr([], 'k')",
		"typeof null", "typeof 0", "null == null", "1 === 2", "0 == ''", "~-1", "~0", "5 & 2", "0 | 0", "1 ^ 1", "year(tm) - 2020", "weekDay(tm)", "millSecond(zt) * 0", "i0 + 0", "i0 * 1", "i5 - 5", "dzero + 0", "dnegzero * 1",
		"h0()", "hf0()", "hs()", "hnil()", "hnp()", "hnd()", "hni()", "hnp() ?? hnd()", "hfalse()", "hnan()", "h32()", "map.k - 1", "map.missing", "st.A - 1", "nilp", "nild", "this.nild", "this.missing", "$u", "($u = 0)", "($u = '')", "($u = null)", "(0, '')", "('', 0)"}
	for _, e := range computed {
		if !w.Take() {
			continue
		}
		w.State(1)
		w.Trans(8)
		w.Trace(1)
		w.Note("leg:observed", 1)
		c := ObsCase{E: e}
		w.Sample("observed", c)
		c06Obs.Do(w, c)
	}
	// the same selections written without blanks, with leading-dot literals next to ? : ?? && ||
	for ci := 0; ci < selNC; ci++ {
		if !w.Take() {
			continue
		}
		c := selVals[ci].Expr
		for _, pair := range [][2]string{
			{c + " ? .5 : 3", c + "?.5:3"}, {c + " ? 3 : .5", c + "?3:.5"}, {c + " ?? .5", c + "??.5"}, {c + " && .5", c + "&&.5"}, {c + " || .5", c + "||.5"},
			{"!" + c + " ? .5 : .25", "!" + c + "?.5:.25"}, {c + " ? 'T' : 'F'", c + "?'T':'F'"}, {c + " ? (.5) : [.5]", c + "?(.5):[.5]"},
			// a conditional laid out over several lines (the operators begin the continuation lines)
			// assignments as branches and right operands, with and without the parentheses nobody needs
			{c + " ? ($p1 = 1) : ($p2 = 2), $p1, $p2", c + " ? $p1 = 1 : $p2 = 2, $p1, $p2"}, {c + " ? (1 ? ($p1 = 1) : ($p1 = 2)) : 3, $p1", c + " ? 1 ? $p1 = 1 : $p1 = 2 : 3, $p1"},
			{c + " ? 3 : (0 ? ($p1 = 1) : ($p2 = 2)), $p1, $p2", c + " ? 3 : 0 ? $p1 = 1 : $p2 = 2, $p1, $p2"}, {"$p3 = (" + c + " ? ($p1 = 1) : 2), $p3, $p1", "$p3 = " + c + " ? $p1 = 1 : 2, $p3, $p1"},
			{c + " ? 'T' : 'F'", c + "\n  ? 'T'\n  : 'F'"}, {c + " ? .5 : 3", c + "\r\n?\r\n.5\r\n:\r\n3"}, {c + " && .5", c + "\n  && .5"}, {c + " || .5", c + "\n|| .5"}, {c + " ?? .5", c + "\n\t?? .5"},
		} {
			if !selVals[ci].NegOK && strings.HasPrefix(pair[0], "!") {
				continue
			}
			w.State(1)
			w.Trans(2)
			w.Trace(1)
			w.Note("leg:compact", 1)
			cc := ObsCase{E: pair[0] + "\x00" + pair[1]}
			w.Sample("compact", cc)
			c06Compact.Do(w, cc)
		}
	}
	if w.Take() {
		for _, k := range []string{"none", "typed-nil", "object"} {
			w.State(1)
			w.Trans(9)
			w.Trace(1)
			w.Note("leg:context", 1)
			c06Ctx.Do(w, ObsCase{E: k})
		}
	}
	// a branch or right operand spelled exactly like the condition (a stateful host function): evaluated
	// like any other - compared with the same formula in which it is spelled differently
	for _, form := range []string{"%A ? %B : 0", "%A ? 0 : %B", "%A ? %B : %B", "%A && %B", "%A || %B", "%A ?? %B", "[%A, %B]", "%A ? (%B) : 0", "(%A) ? %B : 0", "!%A ? 0 : %B", "!!%A && %B", "%A ? %A ? %B : 1 : 2",
		"(%A || %B) ? %B : 3", "%A ? [%B] : []", "%A + 0 ? %B : 0", "%A ? %B + 0 : 0", "1 ? %A ? %B : 4 : 5", "%A == %B", "%A ?? %B ?? %B", "%A && %B || %B"} {
		if !w.Take() {
			continue
		}
		for _, sp := range [][2]string{{"next()", "nxt2()"}, {"(next())", "(nxt2())"}, {"m.next()", "m.nxt2()"}, {"next(1)", "nxt2(1)"}, {"next(1, 'a')", "nxt2(1, 'a')"}, {"m.next(m)", "m.nxt2(m)"}, {"next([1]...)", "nxt2([1]...)"}, {"next(next())", "next(nxt2())"}} {
			for start := 0; start <= 2; start++ {
				w.State(2)
				w.Trans(2)
				w.Trace(1)
				w.Note("leg:same-spelling", 1)
				c := SameCase{Form: form, Spell: sp[0], Alias: sp[1], Start: start}
				w.Sample("same-spelling", c)
				c06Same.Do(w, c)
			}
		}
	}
	// one parsed tree under changing inputs (the context kind and the value of a name): every pair of
	// inputs in both orders and the triples that return to the first, on fresh runners and on one runner
	for _, src := range []string{"ctx ? 1 : 2", "[!!ctx, ctx ? 1 : 2, ctx ?? 'd', ctx || 'd', (ctx && 1) == null, !ctx]", "c ? 1 : 2", "[!!c, c ? 1 : 2, c ?? 'd', c || 'd', c && 1, !c]", "c ? (ctx ? 1 : 2) : (ctx ? 3 : 4)",
		"this.c ? 1 : 2", "(c) ? 1 : 2", "!c ? 1 : 2", "(ctx) ? 1 : 2", "c ?? ctx ?? 'none'", "true ? c : ctx", "null ?? (ctx ? 'C' : 'N')", "$l = ctx, $l ? 1 : 2", "0 ? 1 : ctx ? 2 : 3", "typeof (ctx ? 1 : 'a')", "[ctx ? c : 0, c ? !!ctx : 0]"} {
		if !w.Take() {
			continue
		}
		ni := len(c06ReuseInputs)
		for a := 0; a < ni; a++ {
			for b := 0; b < ni; b++ {
				for _, one := range []bool{false, true} {
					for _, seq := range [][]int{{a, b}, {a, b, a}} {
						w.State(int64(len(seq)))
						w.Trans(int64(len(seq)))
						w.Trace(1)
						w.Note("leg:tree-reuse", 1)
						c := ReuseCase{Src: src, Inputs: seq, OneRun: one}
						w.Sample("tree-reuse", c)
						c06Reuse.Do(w, c)
					}
				}
			}
		}
	}
	// locals that the caller supplied (or an earlier evaluation left) and assignments in branches that
	// are not selected: a local is bound only when its assignment is evaluated
	if w.Take() {
		for _, c := range []struct{ src, want string }{
			{"0 ? ($rate = 1) : $rate", "num:0.25"}, {"1 ? $rate : ($rate = 1)", "num:0.25"}, {"$rate = $rate ?? 0.1", "num:0.25"},
			{"[1 ? 5 : ($seen = 'x'), $seen]", "[num:5,str:\"before\"]"}, {"[$unset ?? 'none', 0 ? ($unset = 1) : 2, $unset]", "[str:\"none\",num:2,null]"},
			{"$rate ? ($seen = $seen + '!') : ($seen = 'no'), $seen", "str:\"before!\""},
			{"[!!up0, up0 ? 'a' : 'b', up0 || 7, !up0, !up3, up3 && 7, up0 ?? 1]", "[bool:false,str:\"b\",num:7,bool:true,bool:false,num:7,num:0]"},
			// zeros of the other built-in integer types are numeric zeros
			{"[!!u0, u0 ? 1 : 2, u0 || 'R', !u0, !!i16z, i16z ?? 9, !!u5, u5 && 1]", "[bool:false,num:2,str:\"R\",bool:true,bool:false,num:0,bool:true,num:1]"}, {"[0 ? ($rate = 3) : 4, 1 ? 6 : ($rate = 5), $rate]", "[num:4,num:6,num:0.25]"},
		} {
			w.State(1)
			w.Trans(1)
			w.Trace(1)
			w.Note("leg:preset-locals", 1)
			oc := ObsCase{E: c.src + "\x00" + c.want}
			w.Sample("preset-locals", oc)
			c06Preset.Do(w, oc)
		}
	}
	// operands with a side effect: evaluated once, handed back unchanged
	for _, op := range []string{"&&", "||", "??", "?:"} {
		if !w.Take() {
			continue
		}
		for _, start := range []string{"0", "1", "5", "(-1)", "'ab'", "''", "null", "2"} {
			for _, step := range []string{"$n = $n + 1", "$n = $n - 1", "$n = $n - 5", "$n = $n * 2", "$n = left($n, len($n) - 1)", "$n = $n + 'x'", "$n = !$n", "$n = $n ?? 3", "$n = [$n]", "$n = $n == 0 ? 7 : 0", "$n = toInt($n) - 1"} {
				w.State(1)
				w.Trans(3)
				w.Trace(1)
				w.Note("leg:once", 1)
				c := OnceCase{Op: op, Start: start, Step: step}
				w.Sample("once", c)
				c06Once.Do(w, c)
			}
		}
	}
	// single operators
	for ci := 0; ci < selNC; ci++ {
		if !w.Take() {
			continue
		}
		c := selVals[ci]
		emit("!!", SelCase{Src: "[!!" + c.Expr + "]", Want: bools(c.Truthy)})
		emit("!!", SelCase{Src: "[!!(" + c.Expr + ")]", Want: bools(c.Truthy)})
		if c.NegOK {
			emit("!", SelCase{Src: "[!" + c.Expr + "]", Want: bools(!c.Truthy)})
			emit("!", SelCase{Src: "[!!!" + c.Expr + "]", Want: bools(!c.Truthy)})
		}
		rec := "calls:F"
		loc := "locals:$f"
		if c.Truthy {
			rec, loc = "calls:T", "locals:$t"
		}
		emit("?:rec", SelCase{Src: "[" + c.Expr + " ? T() : F()]", Rec: rec})
		emit("?:rec", SelCase{Src: "[" + c.Expr + " ? ($t = 1) : ($f = 1)]", Rec: loc})
		for a := 0; a < n; a++ {
			for b := 0; b < n; b++ {
				t := refCond(leaf(ci), leaf(a), leaf(b))
				emit("?:", SelCase{Src: "[" + t.text + "]", Want: t.v})
			}
			for _, f := range []func(a, b tv) tv{refAnd, refOr, refCoal} {
				t := f(leaf(ci), leaf(a))
				if t.ok {
					emit("binary", SelCase{Src: "[" + t.text + "]", Want: t.v})
				}
			}
		}
	}
	// depth 2: op1(op2(c1,c2), b) and op1(c1, op2(c2,b)) ; nested conditionals; double negation of selections
	ops := []func(a, b tv) tv{refAnd, refOr, refCoal}
	for c1 := 0; c1 < selNC; c1++ {
		for c2 := 0; c2 < selNC; c2++ {
			if !w.Take() || w.Expired() {
				continue
			}
			for b := selNC; b < n; b++ {
				for _, o1 := range ops {
					for _, o2 := range ops {
						if t := o1(o2(leaf(c1), leaf(c2)), leaf(b)); t.ok {
							emit("nest-left", SelCase{Src: "[" + t.text + "]", Want: t.v})
						}
						if t := o1(leaf(c1), o2(leaf(c2), leaf(b))); t.ok {
							emit("nest-right", SelCase{Src: "[" + t.text + "]", Want: t.v})
						}
					}
					if t := refCond(o1(leaf(c1), leaf(c2)), leaf(b), leaf(c1)); t.ok {
						emit("nest-cond", SelCase{Src: "[" + t.text + "]", Want: t.v})
					}
					if t := o1(refCond(leaf(c1), leaf(c2), leaf(b)), leaf(c2)); t.ok {
						emit("nest-cond", SelCase{Src: "[" + t.text + "]", Want: t.v})
					}
				}
				t := refCond(leaf(c1), refCond(leaf(c2), leaf(b), leaf(c2)), leaf(c1))
				emit("nest-cond", SelCase{Src: "[" + t.text + "]", Want: t.v})
				// unparenthesised forms exercise the grammar as well: a ?? b ?? c, a || b && c
				t2 := refCoal(refCoal(leaf(c1), leaf(c2)), leaf(b))
				if t2.ok {
					emit("flat", SelCase{Src: "[" + selVals[c1].Expr + " ?? " + selVals[c2].Expr + " ?? " + selVals[b].Expr + "]", Want: t2.v})
				}
				// unparenthesised conditional chains: ?: associates to the right
				t4 := refCond(leaf(c1), leaf(b), refCond(leaf(c2), leaf(c1), leaf(b)))
				emit("flat", SelCase{Src: "[" + selVals[c1].Expr + " ? " + selVals[b].Expr + " : " + selVals[c2].Expr + " ? " + selVals[c1].Expr + " : " + selVals[b].Expr + "]", Want: t4.v})
				t5 := refCond(leaf(c1), refCond(leaf(c2), leaf(b), leaf(c2)), leaf(c1))
				emit("flat", SelCase{Src: "[" + selVals[c1].Expr + " ? " + selVals[c2].Expr + " ? " + selVals[b].Expr + " : " + selVals[c2].Expr + " : " + selVals[c1].Expr + "]", Want: t5.v})
				// every pair of && || ?? side by side without parentheses: the grouping is the reference parser's
				for _, op1 := range []string{"&&", "||", "??"} {
					for _, op2 := range []string{"&&", "||", "??"} {
						if t, ok := flatRef([]string{op1, op2}, []int{c1, c2, b}); ok && t.ok {
							emit("flat-mixed", SelCase{Src: "[(" + selVals[c1].Expr + ") " + op1 + " (" + selVals[c2].Expr + ") " + op2 + " (" + selVals[b].Expr + ")]", Want: t.v})
						}
						if t, ok := flatRef([]string{op1, op2, op1}, []int{c1, c2, b, c2}); ok && t.ok {
							emit("flat-mixed", SelCase{Src: "[(" + selVals[c1].Expr + ") " + op1 + " (" + selVals[c2].Expr + ") " + op2 + " (" + selVals[b].Expr + ") " + op1 + " (" + selVals[c2].Expr + ")]", Want: t.v})
						}
					}
				}
				t3 := refOr(leaf(c1), refAnd(leaf(c2), leaf(b)))
				emit("flat", SelCase{Src: "[" + selVals[c1].Expr + " || " + selVals[c2].Expr + " && " + selVals[b].Expr + "]", Want: t3.v})
			}
			for _, o1 := range ops {
				if t := o1(leaf(c1), leaf(c2)); t.ok {
					emit("!!nest", SelCase{Src: "[!!" + t.text + "]", Want: bools(selVals[t.v].Truthy)})
					if selVals[t.v].NegOK {
						emit("!nest", SelCase{Src: "[!" + t.text + "]", Want: bools(!selVals[t.v].Truthy)})
					}
				}
			}
			// lazy branches inside a nested conditional
			exp := "calls:F"
			if selVals[c1].Truthy {
				if selVals[c2].Truthy {
					exp = "calls:T"
				}
			} else {
				exp = "calls:F,F"
				if selVals[c2].Truthy {
					exp = "calls:F,T"
				}
				// c1 falsy: the false branch evaluates F() ; then (c2 ? T() : F())
			}
			if selVals[c1].Truthy {
				emit("?:rec-nest", SelCase{Src: "[" + selVals[c1].Expr + " ? (" + selVals[c2].Expr + " ? T() : F()) : [F(), F()]]", Rec: exp})
			} else {
				emit("?:rec-nest", SelCase{Src: "[" + selVals[c1].Expr + " ? T() : [F(), (" + selVals[c2].Expr + " ? T() : F())]]", Rec: exp})
			}
		}
	}
}
