package checks

import (
	"verif/internal/eng"
	"verif/internal/ref"
)

var c02Src *eng.Kind[SrcCase]

func init() {
	c := eng.Register(&eng.Check{
		ID:    "C02",
		Title: "The tree follows the grammar",
		Rule: "every token sequence up to k lexemes over a class alphabet and the full lexeme alphabet (single spaces, and every space/newline gap assignment), every triple of infix forms, every prefix/postfix/binary combination, every delimited-list shape, every postfix chain with every line-break placement, every byte string up to n bytes over 21 raw bytes; " +
			"each parsed by the implementation and by an independent recursive-descent reference; distinct = distinct canonical trees (or 'reject')",
		TrustedBase: []string{"internal/ref/tok.go (longest-match tokenizer)", "internal/ref/parse.go (grammar of the statement)", "internal/ref/dec.go (literal values)"},
		Assumptions: []string{"exhaustive only within the stated alphabets and lengths", "inputs whose verdict the statement does not fix (short \\x/\\u escapes, identifier escapes) are skipped and counted"},
		Run:         runC02,
	})
	c02Src = eng.NewKind(c, "src", judgeC02)
}

func judgeC02(c SrcCase) *eng.Fail {
	rt, v := ref.Parse(c.Src)
	if v == ref.Unspecified {
		note("unspecified_skipped", 1)
		return nil
	}
	o := safeParse(c.Src)
	if o.panicked {
		return eng.F("C02/panic", "parser panicked: %s", o.panicMsg)
	}
	if v == ref.Reject {
		outcome("reject")
		if o.err == nil {
			t := implTree(o.src.Expression, nil)
			return eng.F("C02/accepts-underivable", "not derivable from the grammar but accepted; implementation tree: %s", t)
		}
		return nil
	}
	want := rt.String()
	outcome(want)
	if o.err != nil {
		return eng.F("C02/rejects-derivable", "derivable (reference tree %s) but rejected: %v", want, o.err)
	}
	var problems []string
	t := implTree(o.src.Expression, &problems)
	if len(problems) > 0 {
		return eng.F("C02/incomplete-tree", "accepted with an incomplete tree: %v", problems)
	}
	if !sameTree(rt, t) {
		return eng.F("C02/wrong-tree", "tree differs\n  reference:      %s\n  implementation: %s", want, t)
	}
	return nil
}

var reducedAlpha = []string{"a", "(", ")", ".", "!.", "+", "[", "]", ",", "!"}

func runC02(w *eng.W) {
	W = w
	do := func(leg string, src []byte) {
		w.State(1)
		w.Trans(1)
		w.Trace(1)
		w.Note("leg:"+leg, 1)
		w.Sample(leg, string(src))
		c02Src.Do(w, SrcCase{Src: append(Bytes(nil), src...)})
	}
	q := w.Quick()
	pick := func(a, b int) int {
		if q {
			return a
		}
		return b
	}
	neighbourTexts(w, "neighbour-code-points", do)
	lookaheadForms(w, "lookahead-forms", do)
	tokenSeqs(w, "full-seq", SigmaFull, pick(3, 4), do)
	infixTriples(w, "infix-triples", do)
	listForms(w, "list-forms", do)
	postfixChains(w, "postfix-chains", 3, do)
	if q {
		prefixPostfix(w, "prefix-postfix", []string{"||", "==", "+", "*", "="}, do)
	} else {
		prefixPostfix(w, "prefix-postfix", append(append([]string{}, ref.BinaryOps...), "="), do)
	}
	gapSeqs(w, "class-gaps", SigmaClass, []string{" ", "\n"}, pick(3, 4), do)
	gapSeqs(w, "reduced-gaps", reducedAlpha, []string{"", " ", "\n", "\u2029"}, pick(4, 5), do)
	byteStrings(w, "bytes", pick(4, 5), do)
	tokenSeqs(w, "class-seq", SigmaClass, pick(4, 6), do)
}
