package checks

import (
	"fmt"
	"reflect"
	"strconv"
	"strings"
	"time"

	formula "github.com/aundis/formula"

	"github.com/ericlagergren/decimal"

	"verif/internal/eng"
	"verif/internal/ref"
)

// PathCase: a dotted path evaluated against a named data configuration.
type PathCase struct {
	Config string   `json:"config"`
	Path   []string `json:"path"` // first element is the root name; later ones are ".key" or "!.key"
}

var c16Path *eng.Kind[PathCase]

func init() {
	c := eng.Register(&eng.Check{
		ID:          "C16",
		Title:       "Names and member access read the caller's data, null-safely",
		Rule:        "data maps over a key universe (nested map, struct with exported/unexported fields, zero values, absent keys, nil and typed-nil entries, keys colliding with builtin names, every supported scalar kind, typed maps with zero values) nested three deep, in four configurations (full, all-null, empty, no data map); every path of depth 0..d over the universe (plus `this`) with '.' or '!.' at every position is evaluated as '[path]' and compared with a direct Go walk of the data; distinct = distinct (path shape, result class) pairs",
		TrustedBase: []string{"direct type-switch walk of the data in checks/c16.go"},
		Assumptions: []string{"member access on a non-null value that is neither a string-keyed map nor a struct, on a pointer to a struct, and on an unexported field is not fixed by the statement: only 'no panic' is required and the rest of such a path is not judged", "a missing struct field must be an error (C03), not a panic"},
		Run:         runC16,
	})
	c16Path = eng.NewKind(c, "path", judgePath)
	c16Soak = eng.NewKind(c, "soak", judgeSoakPath)
	c16Once = eng.NewKind(c, "receiver-once", judgeOnceRecv)
	c16Caller = eng.NewKind(c, "caller-updates", judgeCaller)
}

type c16S struct {
	A   int
	I64 int64
	F   float64
	Str string
	Z   int
	M   map[string]interface{}
	Np  *c16S
	T   time.Time
	Sl  []interface{}
	b   int
}

// C16Audit is embedded in c16Outer: its exported fields are fields of the outer struct as well
type C16Audit struct {
	Version int
	Owner   string
	Np      *c16S
}

type c16Outer struct {
	ID int
	C16Audit
	Total float64
}

var c16Time = time.Date(2021, 3, 4, 5, 6, 7, 0, time.UTC)
var c16Slice = []interface{}{"e0", 2.0, 7, int64(8)}
var c16Func = func(x interface{}) (interface{}, error) { return x, nil }

func c16Universe(depth int) map[string]interface{} {
	var np *c16S
	m := map[string]interface{}{
		"z": 0.0, "n": nil, "np": np, "npd": (*decimal.Big)(nil), "npt": (*time.Time)(nil), "nps": (*string)(nil), "npi": (*int)(nil), "len": "shadowed-len", "now": 5.0,
		"i": 41, "i32": int32(-32), "i64": int64(9007199254740993), "f64": 2.5, "str": "text", "e": "", "bl": false, "t": true,
		"tm": c16Time, "sl": c16Slice, "f": c16Func, "zt": time.Time{}, "nsl": []string(nil), "nany": []interface{}(nil), "esl": []interface{}{},
		"mi": map[string]int{"z": 0, "o": 1}, "ms": map[string]string{"e": "", "a": "x"}, "mb": map[string]bool{"f": false, "t": true},
		"A": "map-A",
		// keys spelled like reserved words (legal as member names), keys beginning with underscores,
		// keys that differ from another key only in case
		"null": "kw-null", "this": "kw-this", "true": "kw-true", "false": "kw-false", "ctx": "kw-ctx", "typeof": "kw-typeof",
		"__u": "two-underscores", "___v": "three-underscores", "_w": "one-underscore", "Str2": "upper-S", "str2": "lower-s", "STR2": "all-caps",
	}
	// several struct types that share field names at different positions (and no type name)
	m["sa"] = struct {
		Name string
		Age  int
	}{"ann", 30}
	m["sb"] = struct {
		ID   int
		Name string
	}{7, "bob"}
	m["sc"] = struct {
		Age  float64
		ID   string
		Name bool
	}{1.5, "id", true}
	if depth > 0 {
		m["k"] = c16Universe(depth - 1)
		m["s"] = c16S{A: 7, I64: 1 << 60, F: 0.1, Str: "fs", M: c16Universe(depth - 1), T: c16Time, Sl: c16Slice, b: 3}
		m["M"] = map[string]interface{}{"x": 1.0}
	}
	m["em"] = c16Outer{ID: 5, C16Audit: C16Audit{Version: 3, Owner: "ann"}, Total: 9.5}
	return m
}

var c16Keys = []string{"k", "s", "A", "b", "z", "q", "n", "np", "len", "now", "i", "i32", "i64", "f64", "str", "e", "bl", "t", "tm", "sl", "f", "mi", "ms", "mb", "M", "o", "a", "I64", "F", "Str", "Z", "Np", "T", "Sl", "x", "Missing", "sa", "sb", "sc", "Name", "Age", "ID", "zt", "nsl", "nany", "esl", "$loc", "npd", "npt", "nps", "npi", "em", "Version", "Owner", "C16Audit", "Total"}

// c16MemberOnly: keys used after a dot only (as a bare name a reserved word is not a name)
var c16MemberOnly = []string{"null", "this", "true", "false", "ctx", "typeof"}
var c16Extra = []string{"__u", "___v", "_w", "Str2", "str2", "STR2", "sTr2", "__missing"}

var c16Configs = map[string]func() map[string]interface{}{
	"full":  func() map[string]interface{} { return c16Universe(3) },
	"empty": func() map[string]interface{} { return map[string]interface{}{} },
	"none":  func() map[string]interface{} { return nil },
	"nulls": func() map[string]interface{} {
		var np *c16S
		return map[string]interface{}{"k": nil, "s": np, "z": nil, "npd": (*decimal.Big)(nil), "npi": (*int)(nil), "mi": map[string]int(nil), "M": map[string]interface{}(nil), "str": "text", "i": 1}
	},
}
var c16Cache = map[string]map[string]interface{}{}

func c16Data(name string) map[string]interface{} {
	if d, ok := c16Cache[name]; ok {
		return d
	}
	d := c16Configs[name]()
	c16Cache[name] = d
	return d
}

var builtinSet = func() map[string]bool {
	m := map[string]bool{"true": true, "false": true}
	for _, b := range builtinNames {
		m[b] = true
	}
	return m
}()

// walk result
type wres struct {
	val    interface{}
	isErr  bool
	unspec bool
	isFunc bool // a builtin (not compared by identity)
}

func isNullGo(v interface{}) bool {
	if v == nil {
		return true
	}
	rv := reflect.ValueOf(v)
	return rv.Kind() == reflect.Ptr && rv.IsNil()
}

func refMember(base interface{}, key string, assert bool) wres {
	if isNullGo(base) {
		if assert {
			return wres{isErr: true}
		}
		return wres{val: nil}
	}
	if rv := reflect.ValueOf(base); rv.Kind() == reflect.Map && rv.IsNil() {
		// a nil map reads like an empty one; whether it counts as null for !. is not fixed
		if assert {
			return wres{unspec: true}
		}
		return wres{val: nil}
	}
	switch b := base.(type) {
	case map[string]interface{}:
		v, ok := b[key]
		if !ok {
			return wres{val: nil}
		}
		return wres{val: v}
	case map[string]int:
		if v, ok := b[key]; ok {
			return wres{val: v}
		}
		return wres{val: nil}
	case map[string]string:
		if v, ok := b[key]; ok {
			return wres{val: v}
		}
		return wres{val: nil}
	case map[string]bool:
		if v, ok := b[key]; ok {
			return wres{val: v}
		}
		return wres{val: nil}
	}
	if rv := reflect.ValueOf(base); rv.Kind() == reflect.Struct {
		// any struct (named or anonymous): exported field, missing field -> error, unexported -> not fixed
		f, ok := rv.Type().FieldByName(key)
		if !ok {
			return wres{isErr: true}
		}
		if f.PkgPath != "" {
			return wres{unspec: true}
		}
		return wres{val: rv.FieldByName(key).Interface()}
	}
	switch b := base.(type) {
	case c16S:
		f, ok := reflect.TypeOf(b).FieldByName(key)
		if !ok {
			return wres{isErr: true}
		}
		if f.PkgPath != "" {
			return wres{unspec: true}
		}
		return wres{val: reflect.ValueOf(b).FieldByName(key).Interface()}
	}
	return wres{unspec: true}
}

func refPath(data map[string]interface{}, path []string) wres {
	var cur wres
	root := path[0]
	switch {
	case root == "this":
		// without a data map `this` reads like an empty map; whether it is null is not fixed
		cur = wres{val: data}
		if data == nil && len(path) == 1 {
			cur.unspec = true
		}
	case builtinSet[root]:
		if root == "true" || root == "false" {
			cur = wres{val: root == "true"}
		} else {
			cur = wres{isFunc: true, unspec: len(path) > 1}
		}
	default:
		cur = wres{val: data[root]}
	}
	for _, seg := range path[1:] {
		if cur.isErr || cur.unspec {
			return cur
		}
		assert := strings.HasPrefix(seg, "!.")
		key := strings.TrimPrefix(strings.TrimPrefix(seg, "!"), ".")
		cur = refMember(cur.val, key, assert)
	}
	return cur
}

// sameValue compares a value that came out of the evaluator with the Go value in the data.
func sameValue(got, want interface{}) (bool, string) {
	if isNullGo(want) {
		return formula.IsNull(got), "null"
	}
	switch w := want.(type) {
	case int:
		d, ok := decOf(got)
		return ok && d.Finite() && d.Cmp(ref.FromInt64(int64(w))) == 0, "number " + strconv.Itoa(w)
	case int32:
		d, ok := decOf(got)
		return ok && d.Finite() && d.Cmp(ref.FromInt64(int64(w))) == 0, "number " + strconv.Itoa(int(w))
	case int64:
		d, ok := decOf(got)
		return ok && d.Finite() && d.Cmp(ref.FromInt64(w)) == 0, "number " + strconv.FormatInt(w, 10)
	case float64:
		d, ok := decOf(got)
		wd, _ := ref.ParseDec(strconv.FormatFloat(w, 'f', -1, 64))
		return ok && d.Finite() && d.Cmp(wd) == 0, "number " + strconv.FormatFloat(w, 'f', -1, 64)
	case string:
		s, ok := got.(string)
		return ok && s == w, "string " + strconv.Quote(w)
	case bool:
		b, ok := got.(bool)
		return ok && b == w, "boolean " + strconv.FormatBool(w)
	case time.Time:
		t, ok := got.(time.Time)
		return ok && t.Equal(w) && t.Location() == w.Location(), "the same time"
	case c16S:
		s, ok := got.(c16S)
		return ok && reflect.DeepEqual(s, w), "the same struct"
	}
	if reflect.ValueOf(want).Kind() == reflect.Struct {
		return got != nil && reflect.TypeOf(got) == reflect.TypeOf(want) && reflect.DeepEqual(got, want), "the same struct"
	}
	rv := reflect.ValueOf(want)
	if rv.Kind() == reflect.Slice && rv.Len() == 0 {
		gv := reflect.ValueOf(got)
		return got != nil && gv.Kind() == reflect.Slice && gv.Len() == 0 && gv.Type() == rv.Type(), "the same (empty) slice"
	}
	switch rv.Kind() {
	case reflect.Map, reflect.Slice, reflect.Func:
		if got == nil {
			return false, "the same " + rv.Kind().String() + " object"
		}
		gv := reflect.ValueOf(got)
		if gv.Kind() != rv.Kind() {
			return false, "the same " + rv.Kind().String() + " object"
		}
		if rv.Kind() == reflect.Slice && gv.Len() != rv.Len() {
			return false, "the same slice"
		}
		return gv.Pointer() == rv.Pointer(), "the same " + rv.Kind().String() + " object"
	}
	return false, fmt.Sprintf("%T", want)
}

func typeofWant(v interface{}) string {
	switch v.(type) {
	case int, int32, int64, float64:
		return "number"
	case string:
		return "string"
	case bool:
		return "boolean"
	}
	return "object"
}

func judgePath(c PathCase) *eng.Fail {
	cfg, ok := c16Configs[c.Config]
	if !ok || len(c.Path) == 0 {
		return eng.F("harness/config", "bad case")
	}
	_ = cfg
	data := c16Data(c.Config)
	want := refPath(data, c.Path)
	src := strings.Join(c.Path, "")
	p := safeParse([]byte("[" + src + ", typeof " + src + ", " + src + " === null]"))
	if p.panicked || p.err != nil {
		return eng.F("C16/parse", "%s: %v %s", src, p.err, p.panicMsg)
	}
	if data == nil {
		// another runner that never got a data map assigns a local first: a fresh runner must not see it
		other := formula.NewRunner()
		if pre, err := cachedParse("$loc = 7, $loc"); err == nil {
			safeResolve(other, bg, pre.Expression)
		}
	}
	r := formula.NewRunner()
	if data != nil {
		r.SetThis(data)
	}
	o := safeResolve(r, bg, p.src.Expression)
	if o.panicked {
		return eng.F("C16/panic", "%s: panic: %s", src, o.panicMsg)
	}
	// slices are handed on unchanged: the caller's list still holds the Go values it held
	if len(c16Slice) != 4 || c16Slice[0] != interface{}("e0") || c16Slice[1] != interface{}(2.0) || c16Slice[2] != interface{}(7) || c16Slice[3] != interface{}(int64(8)) {
		return eng.F("C16/caller-slice-rewritten", "after evaluating %s the caller's list []interface{}{\"e0\", 2.0, 7, int64(8)} holds %#v", src, c16Slice)
	}
	shape := make([]string, len(c.Path))
	for i, s := range c.Path {
		shape[i] = strings.TrimRight(s, "abcdefghijklmnopqrstuvwxyzABCDEFGHIJKLMNOPQRSTUVWXYZ0123456789")
	}
	if want.unspec {
		outcome("unspecified")
		note("unspecified_paths", 1)
		return nil
	}
	if want.isErr {
		outcome(strings.Join(shape, "") + " error")
		if o.err == nil {
			return eng.F("C16/missing-error", "%s on config %s must be an error (assertion on null, or missing struct field) but yields %s", src, c.Config, show(o.val))
		}
		return nil
	}
	if o.err != nil {
		return eng.F("C16/unexpected-error", "%s on config %s: unexpected error: %v", src, c.Config, o.err)
	}
	arr, ok := o.val.([]interface{})
	if !ok || len(arr) != 3 {
		return eng.F("C16/eval", "%s: result %s", src, show(o.val))
	}
	if want.isFunc {
		if arr[0] == nil || reflect.TypeOf(arr[0]).Kind() != reflect.Func {
			return eng.F("C16/builtin-first", "%s names a builtin and must denote it, got %s", src, show(arr[0]))
		}
		if s, ok := data[c.Path[0]]; ok && s != nil {
			if reflect.ValueOf(arr[0]).Pointer() == reflect.ValueOf(c16Func).Pointer() {
				return eng.F("C16/builtin-first", "%s denotes the data entry instead of the builtin", src)
			}
		}
		outcome("builtin")
		return nil
	}
	okv, desc := sameValue(arr[0], want.val)
	outcome(strings.Join(shape, "") + " " + strings.SplitN(desc, " ", 2)[0])
	if !okv {
		return eng.F("C16/wrong-value", "%s on config %s = %s, expected %s", src, c.Config, show(arr[0]), desc)
	}
	if !isNullGo(want.val) {
		if tw := typeofWant(want.val); arr[1] != interface{}(tw) {
			return eng.F("C16/typeof", "typeof %s = %s, expected %q", src, show(arr[1]), tw)
		}
	}
	if rv := reflect.ValueOf(want.val); rv.Kind() == reflect.Map && rv.IsNil() {
		return nil // nil map: null-ness not fixed
	}
	if arr[2] != interface{}(isNullGo(want.val)) {
		return eng.F("C16/null-equality", "%s === null is %s, expected %v", src, show(arr[2]), isNullGo(want.val))
	}
	// null and typed nil pointers are "equal to null" under the loose operators as well, on either side
	// (what a non-null value of another kind loosely equals is not fixed by the statement)
	if !isNullGo(want.val) {
		return nil
	}
	p2 := safeParse([]byte("[" + src + " == null, null == " + src + ", " + src + " != null, null !== " + src + "]"))
	if p2.panicked || p2.err != nil {
		return eng.F("C16/parse", "%s == null: %v %s", src, p2.err, p2.panicMsg)
	}
	r2 := formula.NewRunner()
	if data != nil {
		r2.SetThis(data)
	}
	o2 := safeResolve(r2, bg, p2.src.Expression)
	isN := isNullGo(want.val)
	arr2, _ := o2.val.([]interface{})
	if o2.panicked || o2.err != nil || len(arr2) != 4 || arr2[0] != interface{}(isN) || arr2[1] != interface{}(isN) || arr2[2] != interface{}(!isN) || arr2[3] != interface{}(!isN) {
		return eng.F("C16/null-equality", "[%s == null, null == %s, %s != null, null !== %s] on config %s = %s %v %s, expected [%v, %v, %v, %v]", src, src, src, src, c.Config, show(o2.val), o2.err, o2.panicMsg, isN, isN, !isN, !isN)
	}
	return nil
}

// SoakPathCase: one runner evaluates a failing formula N times, then a list of paths; a fresh runner
// evaluates the same list; both must agree (errors that are expected leave nothing behind).
type SoakPathCase struct {
	Fail string `json:"fail"`
	N    int    `json:"n"`
}

var c16Soak *eng.Kind[SoakPathCase]

func judgeSoakPath(c SoakPathCase) *eng.Fail {
	data := c16Data("full")
	probe := "[k.z, s.A, missing.x, n.x.y, np.k, str, this.i, k.k.mi.o, sa.Name, k!.k!.f64, np === null, q.r.s.t]"
	pp := safeParse([]byte(probe))
	fp := safeParse([]byte(c.Fail))
	if pp.err != nil || fp.err != nil || pp.panicked || fp.panicked {
		return eng.F("C16/parse", "%v %v", pp.err, fp.err)
	}
	fresh := formula.NewRunner()
	fresh.SetThis(data)
	want := safeResolve(fresh, bg, pp.src.Expression)
	r := formula.NewRunner()
	r.SetThis(data)
	for i := 0; i < c.N; i++ {
		o := safeResolve(r, bg, fp.src.Expression)
		if o.panicked {
			return eng.F("C16/panic", "%s: %s", c.Fail, o.panicMsg)
		}
		if o.err == nil {
			return eng.F("C16/missing-error", "%s must be an error (assertion on null), repetition %d yields %s", c.Fail, i+1, show(o.val))
		}
	}
	got := safeResolve(r, bg, pp.src.Expression)
	if got.panicked || (got.err == nil) != (want.err == nil) || canonImpl(got.val) != canonImpl(want.val) {
		return eng.F("C16/state-after-failures", "after %d failed evaluations of %.60s... on one runner, %s = %s %v; on a fresh runner %s %v", c.N, c.Fail, probe, canonImpl(got.val), got.err, canonImpl(want.val), want.err)
	}
	outcome("soak")
	return nil
}

// CallerCase: the caller changes ITS data map between two evaluations on one runner; names and
// this.k denote the entries of that map as it is now.
type CallerCase struct {
	Pre    string `json:"pre"`
	Change string `json:"change"`
}

var c16Caller *eng.Kind[CallerCase]

func judgeCaller(c CallerCase) *eng.Fail {
	m := map[string]interface{}{"price": 2.0, "qty": 3.0, "item": map[string]interface{}{"sku": "a"}, "label": "old"}
	r := formula.NewRunner()
	r.SetThis(m)
	if c.Pre != "" {
		if o, err := evalOn(r, c.Pre); err != nil || o.panicked || o.err != nil {
			return eng.F("C16/eval", "%s: %v %v %s", c.Pre, err, o.err, o.panicMsg)
		}
	}
	switch c.Change {
	case "update":
		m["price"] = 5.0
	case "add":
		m["extra"] = "new"
	case "delete":
		delete(m, "item")
	case "replace-inner":
		m["item"] = map[string]interface{}{"sku": "b"}
	case "all":
		m["price"], m["extra"], m["label"] = 7.0, 1.0, nil
		delete(m, "item")
	}
	probe := "[price, this.price, extra, this.extra, item.sku, this.item.sku, label, this.label, price * qty, $total, this]"
	got, err := evalOn(r, probe)
	fresh := formula.NewRunner()
	fresh.SetThis(m)
	want, err2 := evalOn(fresh, probe)
	if err != nil || err2 != nil || got.panicked || want.panicked {
		return eng.F("C16/eval", "%s: %v %v %s %s", probe, err, err2, got.panicMsg, want.panicMsg)
	}
	if (got.err == nil) != (want.err == nil) || canonImpl(got.val) != canonImpl(want.val) {
		return eng.F("C16/stale-data", "SetThis(m); %q; the caller then changes m (%s); on the same runner %s = %s %v, but the entries of m are %s %v", c.Pre, c.Change, probe, canonImpl(got.val), got.err, canonImpl(want.val), want.err)
	}
	outcome("caller " + c.Change)
	return nil
}

func evalOn(r *formula.Runner, src string) (evalOut, error) {
	p, err := cachedParse(src)
	if err != nil {
		return evalOut{}, err
	}
	return safeResolve(r, bg, p.Expression), nil
}

// OnceRecvCase: a receiver with a side effect (a recording host function) under . and !.
type OnceRecvCase struct {
	Src   string `json:"src"`
	Calls int    `json:"calls"`
}

var c16Once *eng.Kind[OnceRecvCase]

func judgeOnceRecv(c OnceRecvCase) *eng.Fail {
	calls := 0
	data := map[string]interface{}{
		"mk": func() (interface{}, error) {
			calls++
			return map[string]interface{}{"a": map[string]interface{}{"b": float64(calls)}, "n": nil}, nil
		},
		"nul": func() (interface{}, error) { calls++; return nil, nil },
	}
	o, err := evalWith(c.Src, data)
	if err != nil || o.panicked {
		return eng.F("C16/eval", "%s: %v %s", c.Src, err, o.panicMsg)
	}
	if calls != c.Calls {
		return eng.F("C16/receiver-evaluated-twice", "%s: the host functions in receiver position ran %d times, the formula calls them %d times (result %s, error %v)", c.Src, calls, c.Calls, show(o.val), o.err)
	}
	outcome(fmt.Sprint("once ", c.Calls))
	return nil
}

func runC16(w *eng.W) {
	W = w
	if w.Take() {
		for _, c := range []OnceRecvCase{{"mk().a", 1}, {"mk()!.a", 1}, {"mk()!.a!.b", 1}, {"mk().a.b + mk()!.a!.b", 2}, {"[mk()!.a, mk().n, mk()!.n]", 3}, {"nul().x", 1}, {"nul()!.x", 1}, {"mk()!.n!.x", 1}, {"mk()!.a!.b!.c", 1},
			{"(mk())!.a.b", 1}, {"mk()!.a.b!.c.d", 1}, {"mk()!.a ?? mk()!.a", 2}} {
			w.State(1)
			w.Trans(1)
			w.Trace(1)
			w.Note("leg:receiver-once", 1)
			w.Sample("receiver-once", c)
			c16Once.Do(w, c)
		}
	}
	if w.Take() {
		for _, pre := range []string{"", "price", "$total = price * qty, $total", "$a = 1, $b = item, $c = this, [$a, $b.sku]", "[price, extra, item.sku, this.label]", "$total = 1, $total = $total + 1"} {
			for _, ch := range []string{"none", "update", "add", "delete", "replace-inner", "all"} {
				w.State(1)
				w.Trans(2)
				w.Trace(1)
				w.Note("leg:caller-updates", 1)
				c := CallerCase{Pre: pre, Change: ch}
				w.Sample("caller-updates", c)
				c16Caller.Do(w, c)
			}
		}
	}
	if w.Take() {
		chain := "missing!.a1"
		for i := 2; i <= 120; i++ {
			chain += ".a" + strconv.Itoa(i)
		}
		n := 12000
		if !w.Quick() {
			n = 60000
		}
		for _, f := range []string{chain, "n!.x", "k.n!.y.z", "np!.A", "[1, [2, [3, q!.r]]]"} {
			w.State(1)
			w.Trans(int64(n))
			w.Trace(1)
			w.Note("leg:after-many-failures", 1)
			c := SoakPathCase{Fail: f, N: n}
			w.Sample("after-many-failures", c)
			c16Soak.Do(w, c)
		}
	}
	depth := 3
	if !w.Quick() {
		depth = 4
	}
	roots := append(append([]string{"this"}, c16Keys...), c16Extra...)
	var segs []string
	for _, k := range append(append(append([]string{}, c16Keys...), c16Extra...), c16MemberOnly...) {
		segs = append(segs, "."+k, "!."+k)
	}
	var deepSegs []string
	for _, k := range []string{"k", "s", "M", "q", "n", "np", "z", "i64", "mi", "A", "b", "Missing", "str", "sa", "sb", "Name", "zt", "nsl", "npd", "npi", "null", "typeof", "this", "__u", "sTr2", "str2", "em", "Version", "C16Audit", "Np"} {
		deepSegs = append(deepSegs, "."+k, "!."+k)
	}
	for _, cfg := range []string{"full", "nulls", "empty", "none"} {
		d := depth
		if cfg != "full" && d > 3 {
			d = 3
		}
		for _, root := range roots {
			var rec func(path []string)
			rec = func(path []string) {
				w.State(1)
				w.Trans(1)
				w.Trace(1)
				c := PathCase{Config: cfg, Path: append([]string(nil), path...)}
				w.Sample(cfg, c)
				c16Path.Do(w, c)
				if len(path) > d {
					return
				}
				// prune: below an error / unspecified point nothing more is judged
				r := refPath(c16Data(cfg), path)
				if r.isErr || r.unspec {
					return
				}
				for _, s := range deepSegs {
					rec(append(path, s))
				}
			}
			// shard on (config, root, first segment)
			w.State(1)
			if w.Take() {
				c16Path.Do(w, PathCase{Config: cfg, Path: []string{root}})
			}
			for _, s := range segs {
				if !w.Take() || w.Expired() {
					continue
				}
				rec([]string{root, s})
			}
		}
	}
}
