package checks

import (
	"context"
	"fmt"
	"os"
	"reflect"
	"strings"
	"time"

	formula "github.com/aundis/formula"

	"verif/internal/eng"
	"verif/internal/ref"
)

// EvalCase: a formula text evaluated against a named data configuration.
type EvalCase struct {
	Src  string `json:"src"`
	Data string `json:"data"`
}

var c03Eval *eng.Kind[EvalCase]
var c03Gen *eng.Kind[GenCase]
var c03Misuse *eng.Kind[EvalCase]

func init() {
	c := eng.Register(&eng.Check{
		ID:          "C03",
		Title:       "Evaluation is total",
		Rule:        "value alphabet V (every supported and odd Go kind, non-finite numbers, functions with good and bad signatures): every prefix operator x V, every binary operator x V x V, conditionals, member access with present/absent/unexported/builtin names on every v, every builtin x every argument list of length 0..arity+1 over a representative sub-alphabet (with and without spread), every v called as a function, every parsed token sequence up to k over an evaluation alphabet, and the well-formed pathological family up to 64 KiB; each is one Resolve call judged for: no panic, (value,nil) xor (nil,error), step budget; distinct = distinct result classes",
		TrustedBase: []string{"checks/zoo.go (value alphabet)", "cmd/vinstr step counter"},
		Assumptions: []string{"pad/repeat lengths are at most 10^6 or absurd (1e30); lengths in between could exhaust memory and are outside the statement", "host functions that themselves panic are outside the statement"},
		Run:         runC03,
	})
	c03Eval = eng.NewKind(c, "eval", judgeC03)
	c03Misuse = eng.NewKind(c, "misuse", func(c EvalCase) *eng.Fail {
		if f := judgeC03(c); f != nil {
			return f
		}
		o, err := evalSrc(c.Src, dataConfig(c.Data))
		if err != nil {
			return eng.F("harness/misuse", "%s does not parse: %v", c.Src, err)
		}
		if o.err == nil {
			return eng.F("C03/misuse-not-reported", "%s is misuse the statement names (not a function, wrong argument count or type, position out of range, invalid regular expression, comparing arrays or maps, missing struct field, assertion on null) but evaluates to %s without an error", c.Src, show(o.val))
		}
		// ... every time: the same formula again on one runner (a runner that has reported the misuse once
		// reports it again), from the same tree and from a tree parsed anew
		r := formula.NewRunner()
		if d := dataConfig(c.Data); d != nil {
			r.SetThis(d)
		}
		p := safeParse([]byte(c.Src))
		for i := 1; i <= 4; i++ {
			if i == 3 {
				p = safeParse([]byte(c.Src))
			}
			if p.panicked || p.err != nil {
				return eng.F("harness/misuse", "%s does not parse the second time: %v", c.Src, p.err)
			}
			if o := safeResolve(r, bg, p.src.Expression); o.panicked {
				return eng.F("C03/panic", "%s (evaluation %d on one runner) panicked: %s", c.Src, i, o.panicMsg)
			} else if o.err == nil {
				return eng.F("C03/misuse-not-reported", "%s is misuse and was reported as such by the first evaluations on this runner, but evaluation %d on the same runner gives %s without an error", c.Src, i, show(o.val))
			}
		}
		return nil
	})
	c03Gen = eng.NewKind(c, "gen", func(c GenCase) *eng.Fail {
		g := pathGens[c.Gen]
		if g == nil {
			return eng.F("harness/unknown-generator", "unknown generator %q", c.Gen)
		}
		return judgeC03(EvalCase{Src: g(c.Size), Data: "sigma"})
	})
}

var zooVals = zooValues()

// a context with a far deadline and a value, as a request handler would pass it
var c03DeadlineCtx, _ = context.WithDeadline(context.WithValue(context.Background(), ctxKey{}, "v"), time.Now().Add(1000*time.Hour))

// deepMap: a map nested 80 levels through the key k.
var deepMap = func() map[string]interface{} {
	m := map[string]interface{}{"k": 1.0}
	for i := 0; i < 80; i++ {
		m = map[string]interface{}{"k": m}
	}
	return m
}()

func sigmaEvalData() map[string]interface{} {
	return map[string]interface{}{
		"dm": deepMap, "idm": func(x interface{}) (interface{}, error) { return x, nil },
		"n": nil, "s": "a", "x": 3.0, "m": map[string]interface{}{"k": 1.0, "s": "a", "f": goodFunc},
		"f": goodFunc, "arr": []interface{}{1.0, "a"}, "st": zooStruct{A: 1, S: "s"}, "t": zooTime, "a": 1.0, "b": 2.0,
	}
}

// reenterData: host functions that evaluate a sub-formula on the very runner they are called from (a
// closure over the runner), directly and through each other: evaluation still terminates.
func reenterData(r *formula.Runner) map[string]interface{} {
	d := sigmaEvalData()
	sub, _ := cachedParse("x + 1")
	sub2, _ := cachedParse("again() * 2 + len(s)")
	subErr, _ := cachedParse("n!.k")
	d["again"] = func() (interface{}, error) { return r.Resolve(bg, sub.Expression) }
	d["again2"] = func(ctx context.Context) (interface{}, error) { return r.Resolve(ctx, sub2.Expression) }
	d["againErr"] = func() (interface{}, error) { return r.Resolve(bg, subErr.Expression) }
	return d
}

func dataConfig(name string) map[string]interface{} {
	switch name {
	case "zoo":
		d := zooData(zooVals)
		// host functions with unsigned integer parameters (no builtin has one)
		d["tku"] = func(n uint64) (uint64, error) { return n, nil }
		d["tk8"] = func(n uint8, rest ...uint) (int, error) { return len(rest), nil }
		return d
	case "cuts":
		// a list that contains itself, next to shorter and longer cuts of the same backing array
		s := make([]interface{}, 3)
		s[0], s[1], s[2] = 1.0, nil, "z"
		s[1] = s
		d := sigmaEvalData()
		d["cy1"] = []interface{}{s[:1], s}
		d["cy2"] = []interface{}{s, s[:1]}
		d["cy3"] = map[string]interface{}{"a": s[:1], "b": s[:3], "c": s[:2]}
		d["ok1"] = []interface{}{s[:1], s[:1], s[2:]}
		return d
	case "sigma":
		return sigmaEvalData()
	case "sigma-hv":
		sd := sigmaEvalData()
		sd["hv"] = func(head interface{}, rest ...interface{}) (interface{}, error) { return len(rest), nil }
		sd["hv0"] = variadicFunc
		sd["ints"] = []int{1, 2}
		sd["smap"] = map[string]int{"k": 1}
		sd["m"].(map[string]interface{})["l"] = []interface{}{1.0}
		return sd
	case "none":
		return nil
	}
	return map[string]interface{}{}
}

func judgeC03(c EvalCase) *eng.Fail {
	resetSteps() // the step budget is per case (parse and evaluation each get a fresh count)
	p := safeParse([]byte(c.Src))
	if p.panicked {
		return eng.F("C03/parse-panic", "parser panicked: %s", p.panicMsg)
	}
	if p.err != nil {
		note("not_parsed", 1)
		return nil
	}
	r := formula.NewRunner()
	if d := dataConfig(c.Data); d != nil {
		r.SetThis(d)
	}
	if c.Data == "reenter" {
		r.SetThis(reenterData(r))
	}
	resetSteps()
	t0 := time.Now()
	o := safeResolve(r, bg, p.src.Expression)
	if d := time.Since(t0); d > 200*time.Millisecond {
		note("evaluations_slower_than_200ms", 1)
		if path := os.Getenv("VERIF_SLOW"); path != "" {
			if f, err := os.OpenFile(path, os.O_APPEND|os.O_CREATE|os.O_WRONLY, 0644); err == nil {
				fmt.Fprintf(f, "%v %s\n", d, c.Src)
				f.Close()
			}
		}
	}
	if stepBudgetHit() {
		return eng.F("C03/step-budget", "evaluation did not finish within the step budget: non-termination")
	}
	note("evaluated", 1)
	if o.panicked {
		return eng.F("C03/panic", "Resolve panicked: %s", o.panicMsg)
	}
	// the same evaluation under a context that carries a deadline (and a value): the context is the
	// caller's business and changes nothing about totality or the outcome class
	if os.Getenv("VERIF_C03_DEADLINE") != "0" {
		r2 := formula.NewRunner()
		if d := dataConfig(c.Data); d != nil {
			r2.SetThis(d)
		}
		if c.Data == "reenter" {
			r2.SetThis(reenterData(r2))
		}
		resetSteps()
		o2 := safeResolve(r2, c03DeadlineCtx, p.src.Expression)
		if stepBudgetHit() {
			return eng.F("C03/step-budget", "evaluation under a context with a deadline did not finish within the step budget")
		}
		if o2.panicked {
			return eng.F("C03/panic", "Resolve under a context with a deadline panicked: %s", o2.panicMsg)
		}
		// (a formula that names the context itself may of course see the difference)
		if (o2.err == nil) != (o.err == nil) && !strings.Contains(c.Src, "ctx") {
			return eng.F("C03/context-dependent", "with a plain context: %v / %s; with a context that carries a deadline: %v / %s", o.err, show(o.val), o2.err, show(o2.val))
		}
	}
	if o.err != nil {
		outcome("error")
		if o.val != nil {
			return eng.F("C03/value-and-error", "both a value (%s) and an error (%v)", show(o.val), o.err)
		}
		if o.err.Error() == "" {
			return eng.F("C03/empty-error", "error with empty message")
		}
		return nil
	}
	cls := show(o.val)
	if len(cls) > 24 {
		cls = cls[:24]
	}
	outcome(cls)
	return nil
}

var evalSigma = strings.Fields(`n s x m f arr st t 1 'a' ( ) [ ] . !. , + - * / % == < && || ?? ! ~ ? : = $l ... null typeof`)

var unaryOps = []string{"+", "-", "!", "!!", "~", "typeof "}

func runC03(w *eng.W) {
	W = w
	if !stepsAvailable() {
		w.Cap("instrumented build unavailable: step budget not active")
	}
	q := w.Quick()
	do := func(leg, src, data string) {
		w.State(1)
		w.Trans(1)
		w.Trace(1)
		w.Note("leg:"+leg, 1)
		w.Sample(leg, src)
		c03Eval.Do(w, EvalCase{Src: src, Data: data})
	}
	V := zooVals
	binOps := append(append([]string{}, ref.BinaryOps...), ",")
	// (a) operators
	for _, v := range V {
		if !w.Take() {
			continue
		}
		for _, op := range unaryOps {
			do("prefix", op+v.Expr, "zoo")
			do("prefix", op+op+v.Expr, "zoo")
		}
		do("cyclic", "$l = this, $l."+"$l"+" === null ? 1 : "+v.Expr, "zoo")
		do("cyclic", "$l = this, toString("+v.Expr+") + toString($l)", "zoo")
		do("cyclic", "$l = [this], '' + $l + "+v.Expr, "zoo")
		// !. and . applied to every kind of operand node (the failed assertion names its operand)
		for _, form := range []string{"(%s ?? %s)", "(%s || %s)", "(%s && %s)", "(%s ? %s : %s)", "[%s]", "(-%s)", "(!%s)", "(typeof %s)", "(%s + %s)", "(%s, %s)", "($l = %s)", "len(%s)", "(%s == %s)", "((%s))", "(%s).k", "(%s)!.k", "(%s ?? n)", "(n || %s)"} {
			e := strings.Replace(form, "%s", v.Expr, -1)
			do("assert-compound", e+"!.k", "zoo")
			do("assert-compound", e+".k!.q", "zoo")
			do("assert-compound", "["+e+"!.k, 1]", "zoo")
		}
		do("assign", "$l = "+v.Expr, "zoo")
		do("assign", "($l = "+v.Expr+"), $l", "zoo")
		do("array", "["+v.Expr+", "+v.Expr+"]", "zoo")
		for _, k := range []string{"k", "q", "A", "b", "len", "f", "z", "N", "S"} {
			do("member", v.Expr+"."+k, "zoo")
			do("member", v.Expr+"!."+k, "zoo")
			do("member", v.Expr+"."+k+"."+k, "zoo")
			do("member-call", v.Expr+"."+k+"()", "zoo")
			do("member-call", v.Expr+"."+k+"(1)", "zoo")
		}
		// (d) every value called as a function
		for _, args := range []string{"", "1", "1, 2", "'a'", "null", "[1,2]...", "1, [1,2]...", "1...", "null...", "...", "'a', 1, 2", "'a', [1,2]", "'a', [1,2]..."} {
			do("call-value", v.Expr+"("+args+")", "zoo")
		}
		for _, a := range V {
			do("conditional", v.Expr+" ? "+a.Expr+" : 1", "zoo")
		}
	}
	for _, a := range V {
		for _, b := range V {
			if !w.Take() {
				continue
			}
			for _, op := range binOps {
				do("binary", a.Expr+" "+op+" "+b.Expr, "zoo")
			}
		}
	}
	// (g) the misuse the statement lists is reported through the returned error (never a value)
	for _, src := range []string{"s(1)", "x(1)", "n()", "arr(0)", "m.k(1)", "m.q(1)", "m.q.r()", "n.x(2)", "this.nope(1)", "nope(1)", "m.q(1) + 1", "1 + m.q.r(4)", "[m.nope()]", "m.s(1)", "m.k.f()", "st()", "len()", "len(1, 2)", "left('abc')", "left('abc', 'x')", "mid('abc', 'a', 2)", "date('a', 1, 1)", "left('abc', -1)", "right('abc', -1)",
		"regexp('ab', '(')", "regexp('ab', 'a)(b')", "regexp('ab', ')(')", "regexp('ab', 'x)|(y')", "regexp('ab', '[a-')", "regexp('ab', '*a')", "regexp('ab', 'a)')", "regexp('ab', '(?z)a')",
		"arr == arr", "[1] == [1]", "m == m", "m != m", "arr < arr", "[1] >= [1]", "m <= m", "m > m", "[1, 2] < [3]", "arr >= m", "m < [1]", "arr !== arr", "m === m", "st.Missing", "st.Missing.x", "f((1)...)", "f(m...)", "len([1]...)", "n!.k", "m.q!.k"} {
		if !w.Take() {
			continue
		}
		w.State(1)
		w.Trans(1)
		w.Trace(1)
		w.Note("leg:reported-misuse", 1)
		w.Sample("reported-misuse", src)
		c03Misuse.Do(w, EvalCase{Src: src, Data: "sigma"})
	}
	// (g2) the same, systematically: every builtin with every wrong number of arguments (plain, and with the
	// last argument spread - for a variadic callee a spread call has exactly its fixed arguments before the
	// list), and the string builtins with every negative position down to the smallest 64-bit integer
	{
		sd := sigmaEvalData()
		sd["hv"] = func(head interface{}, rest ...interface{}) (interface{}, error) { return len(rest), nil }
		sd["hv0"] = variadicFunc
		names := append(append([]string{}, builtinNames...), "hv", "hv0", "f", "m.f")
		for _, name := range names {
			if !w.Take() {
				continue
			}
			o, _ := evalSrc("["+name+"]", sd)
			arr, ok := o.val.([]interface{})
			if o.err != nil || o.panicked || !ok || len(arr) != 1 || arr[0] == nil || reflect.TypeOf(arr[0]).Kind() != reflect.Func {
				continue
			}
			t := reflect.TypeOf(arr[0])
			in, variadic := t.NumIn(), t.IsVariadic()
			if in > 0 && t.In(0).Implements(reflect.TypeOf((*context.Context)(nil)).Elem()) {
				in--
			}
			misuse := func(src string) {
				w.State(1)
				w.Trans(1)
				w.Trace(1)
				w.Note("leg:reported-misuse", 1)
				w.Sample("reported-misuse", src)
				c03Misuse.Do(w, EvalCase{Src: src, Data: "sigma-hv"})
			}
			list := func(k int, last string) string {
				parts := make([]string, 0, k+1)
				for i := 0; i < k; i++ {
					parts = append(parts, "1")
				}
				if last != "" {
					parts = append(parts, last)
				}
				return name + "(" + strings.Join(parts, ", ") + ")"
			}
			if variadic {
				fixed := in - 1
				for k := 0; k < fixed; k++ {
					misuse(list(k, ""))
				}
				for k := 0; k <= fixed+3; k++ {
					if k != fixed {
						misuse(list(k, "[1, 2]..."))
						misuse(list(k, "[]..."))
					}
				}
			} else {
				for k := 0; k <= in+3; k++ {
					if k != in {
						misuse(list(k, ""))
					}
				}
			}
		}
		// comparing arrays or maps - of the same or of different Go types, with any of the eight operators
		if w.Take() {
			comp := []string{"arr", "[1]", "[]", "m", "this", "ints", "smap", "m.l", "[[1]]"}
			for _, a := range comp {
				for _, b := range comp {
					for _, op := range []string{"==", "!=", "===", "!==", "<", ">", "<=", ">="} {
						src := a + " " + op + " " + b
						w.State(1)
						w.Trans(1)
						w.Trace(1)
						w.Note("leg:reported-misuse", 1)
						w.Sample("reported-misuse", src)
						c03Misuse.Do(w, EvalCase{Src: src, Data: "sigma-hv"})
					}
				}
			}
		}
		if w.Take() {
			for _, fn := range []string{"left('abc', %s)", "right('abc', %s)", "left('', %s)", "right('', %s)", "right('abcdefghij', %s)", "left(s, %s)", "right(s, %s)"} {
				for _, pos := range []string{"1", "2", "3", "4", "5", "10", "11", "1000", "2147483648", "2147483649", "4294967296", "4294967297", "9007199254740993", "4611686018427387904", "9223372036854775798", "9223372036854775797",
					"9223372036854775803", "9223372036854775804", "9223372036854775805", "9223372036854775806", "9223372036854775807", "9223372036854775808"} {
					for _, neg := range []string{"-" + pos, "(0 - " + pos + ")", "-" + pos + ".0"} {
						src := strings.Replace(fn, "%s", neg, 1)
						w.State(1)
						w.Trans(1)
						w.Trace(1)
						w.Note("leg:reported-misuse", 1)
						w.Sample("reported-misuse", src)
						c03Misuse.Do(w, EvalCase{Src: src, Data: "sigma"})
					}
				}
			}
		}
	}
	// (c) builtins x argument lists
	argAlpha := []string{"null", "true", "1", "-1", "2.5", "1e6", "1e30", "(0/0)", "'abc'", "''", "'('", "[1,'a']", "['a','b']", "v32", "v41", "[[1]]", "-3", "0", "1e-30000000", "this", "($c = this)", "92233720368547758080e999999999", "92233720368547758080e-999999999", "1e-999999999", "'12345678901234567890123e99999999'"}
	if q {
		argAlpha = []string{"null", "1", "-1", "1e30", "'abc'", "'('", "[1,'a']", "v41", "(0/0)", "1e-30000000", "($c = this)", "92233720368547758080e999999999", "92233720368547758080e-999999999"}
	}
	zd := zooData(V)
	for _, name := range builtinNames {
		arity := 1
		variadic := false
		if o, _ := evalSrc("["+name+"]", zd); o.err == nil && !o.panicked {
			if arr, ok := o.val.([]interface{}); ok && len(arr) == 1 && arr[0] != nil {
				if t := reflect.TypeOf(arr[0]); t.Kind() == reflect.Func {
					arity = t.NumIn()
					variadic = t.IsVariadic()
				}
			}
		}
		maxLen := arity + 1
		if variadic {
			maxLen = arity + 2
		}
		if maxLen > 5 {
			maxLen = 5
		}
		if q && maxLen > 4 {
			maxLen = 4
		}
		for l := 0; l <= maxLen; l++ {
			seqsSharded(w, len(argAlpha), l, func(idx []int) {
				parts := make([]string, len(idx))
				for i, x := range idx {
					parts[i] = argAlpha[x]
				}
				args := strings.Join(parts, ", ")
				do("builtin", name+"("+args+")", "zoo")
				if l > 0 && l <= 2 {
					do("builtin-spread", name+"("+args+"...)", "zoo")
				}
			})
		}
	}
	// (i) host functions that re-enter the runner
	if w.Take() {
		for _, src := range []string{"again()", "again() + 1", "[again(), again()]", "again2()", "again2() + again()", "f(again())", "$l = again(), $l + again2()", "again() ? again2() : 2", "againErr()", "[again(), againErr()]",
			"againErr() ?? again()", "x + again() * again2()", "m.f(again())", "again(1)", "again2(1)"} {
			do("re-entrant", src, "reenter")
		}
	}
	if w.Take() {
		for _, v := range []string{"cy1", "cy2", "cy3", "ok1", "[cy1, ok1]", "[ok1, cy2]"} {
			for _, form := range []string{"toString(%s)", "'' + %s", "join([%s], ',')", "%s == 'a'", "len(%s)", "[%s, 1] + ''", "$l = %s, toString($l) + toString($l)"} {
				do("cyclic-cuts", strings.Replace(form, "%s", v, -1), "cuts")
			}
		}
	}
	for _, v := range V {
		if !w.Take() {
			continue
		}
		do("unsigned-param", "tku("+v.Expr+")", "zoo")
		do("unsigned-param", "tk8("+v.Expr+", "+v.Expr+")", "zoo")
		do("unsigned-param", "tk8(1, "+v.Expr+", 2)", "zoo")
	}
	// (h) exponent walks: quotients and products of literals at the edge of the exponent range, repeated until
	// the exponent has left the decimal library's range (10^18) and the range of a 64-bit integer, then used
	// as an operand of everything that aligns, shifts or counts digits
	for _, k := range []int{1, 2, 5, 9, 10, 11, 45, 46, 47, 89, 90, 91, 92, 93, 100, 184, 185} {
		if !w.Take() {
			continue
		}
		for _, last := range []string{"1e23372036854775900", "1e23372036854775901", "1e23372036854775899", "3", "1e99999999999999999"} {
			for _, walk := range []string{"1e-99999999999999999" + strings.Repeat(" / 1e99999999999999999", k) + " / " + last, "7e99999999999999999" + strings.Repeat(" / 1e-99999999999999999", k) + " / " + last,
				"1e99999999999999999" + strings.Repeat(" * 1e99999999999999999", k) + " * " + last, "3e-99999999999999999" + strings.Repeat(" * 1e-99999999999999999", k) + " * " + last} {
				for _, form := range []string{"1e99999999999999999 % (%s)", "(%s) % 7", "7 % (%s)", "(%s) % 1e-99999999999999999", "(%s) + 1", "1 - (%s)", "(%s) * (%s)", "1 / (%s)", "floor(%s)", "round(%s)", "toInt(%s)", "toString(%s)",
					"(%s) < 1", "(%s) == 0", "ln(%s)", "log(%s)", "sqrt(%s)", "exp(%s)", "(%s) & 1", "~(%s)", "left('abc', %s)", "max(%s, 1)", "roundCash(%s, 2)", "-(%s)", "abs(%s)", "finite(%s)", "date(%s, 1, 1)"} {
					do("exponent-walks", strings.Replace(form, "%s", walk, -1), "zoo")
				}
			}
		}
	}
	// (f) pathological family, evaluated
	pathological(w, func(g GenCase, s string) {
		if (g.Gen == "digits" || g.Gen == "fraction-digits" || g.Gen == "separated-digits") && g.Size > 4200 {
			return // base conversion of huge literals is slow inside math/big; reported in DESIGN, not judged
		}
		w.State(1)
		w.Trans(1)
		w.Trace(1)
		w.Note("leg:pathological", 1)
		c03Gen.Do(w, g)
	})
	// (e) parsed token sequences over the evaluation alphabet
	k := 4
	if !q {
		k = 5
	}
	for l := 1; l <= k; l++ {
		seqsSharded(w, len(evalSigma), l, func(idx []int) {
			do("token-seq", string(joinIdx(evalSigma, idx, " ")), "sigma")
		})
		if w.Expired() {
			w.Cap("token-seq stopped at length " + itoa(l))
			break
		}
	}
}
