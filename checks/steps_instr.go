//go:build instr

package checks

import (
	formula "github.com/aundis/formula"
)

// Step counting through the overlay-instrumented package: every function entry and every
// loop iteration of the package under test calls VerifPoint/VerifStep.

const stepBudget = 100_000_000

var stepCount int64
var budgetHit bool

type stepBudgetPanic struct{}

func init() {
	formula.VerifStepHook = func() {
		stepCount++
		if stepCount > stepBudget {
			budgetHit = true
			panic(stepBudgetPanic{})
		}
	}
}

func stepsAvailable() bool { return true }
func resetSteps()          { stepCount = 0; budgetHit = false }
func steps() int64         { return stepCount }
func stepBudgetHit() bool  { return budgetHit }

func setYieldHook(f func(string)) bool { formula.VerifYieldHook = f; return true }
func setBlockHook(f func())            { formula.VerifBlockHook = f }
func globalsDump() string              { return formula.VerifGlobals() }
func disableStepHook()                 { formula.VerifStepHook = nil }
func resetPools()                       { formula.VerifResetPools() }
