package checks

import (
	"fmt"
	"os"
	"reflect"
	"strings"
	"unicode/utf8"

	formula "github.com/aundis/formula"

	"verif/internal/eng"
	"verif/internal/ref"
)

var c15Src *eng.Kind[SrcCase]
var c15Help *eng.Kind[SrcCase]

func init() {
	c := eng.Register(&eng.Check{
		ID:    "C15",
		Title: "Source ranges nest and re-parse; errors point at the right line and column",
		Rule: "every token sequence up to k lexemes with joiners from {none, space, tab, NBSP, LF, CR, CRLF, U+2028, U+2029, U+0085} between tokens and at the very end, plus the closed families of C02: for accepted inputs every node's range nests, children are ordered and every expression node's text re-parses to its own subtree; for rejected inputs every diagnostic lies in the text and the error text equals pos(line, col) category(code) message for the first diagnostic under a direct line/column count; " +
			"helpers (ComputeLineStarts, GetLineAndCharacterOfPosition, PositionToLineAndCharacter) for every text up to 7 atoms over {a, LF, CR, U+2028, U+2029, U+0085, CJK} x every offset; distinct = distinct (tree | error position) classes",
		TrustedBase: []string{"direct line/column count in checks/c15.go", "checks/common.go implTree"},
		Assumptions: []string{"errors raised by the end-of-input assertion carry no diagnostic; for them only 'is an error' applies", "an offset inside a multi-byte line break belongs to the line before it"},
		Run:         runC15,
	})
	c15Src = eng.NewKind(c, "src", func(c SrcCase) *eng.Fail { return judgeRanges(c.Src) })
	c15Help = eng.NewKind(c, "helpers", func(c SrcCase) *eng.Fail { return judgeHelpers(c.Src) })
}

// lineStartsRef: 0 plus the offset after every line break (CRLF is one break).
func lineStartsRef(text []byte) []int {
	ls := []int{0}
	for p := 0; p < len(text); {
		r, sz := utf8.DecodeRune(text[p:])
		p += sz
		if r == '\r' {
			if p < len(text) && text[p] == '\n' {
				p++
			}
			ls = append(ls, p)
		} else if ref.IsLB(r) {
			ls = append(ls, p)
		}
	}
	return ls
}

func lineColRef(ls []int, off int) (int, int) {
	line := 0
	for i, s := range ls {
		if s <= off {
			line = i
		}
	}
	return line, off - ls[line]
}

type rng struct {
	pos, end int
	what     string
}

// childRanges lists the direct parts of a node in source order.
func childRanges(e formula.Expression) (parts []rng, exprKids []formula.Expression) {
	add := func(n formula.Node, what string) {
		if n == nil || reflect.ValueOf(n).IsNil() {
			return
		}
		parts = append(parts, rng{n.Pos(), n.End(), what})
	}
	switch n := e.(type) {
	case *formula.PrefixUnaryExpression:
		add(n.Operator, "operator")
		add(n.Operand, "operand")
		exprKids = []formula.Expression{n.Operand}
	case *formula.TypeOfExpression:
		add(n.Expression, "operand")
		exprKids = []formula.Expression{n.Expression}
	case *formula.BinaryExpression:
		add(n.Left, "left")
		add(n.Operator, "operator")
		add(n.Right, "right")
		exprKids = []formula.Expression{n.Left, n.Right}
	case *formula.ConditionalExpression:
		add(n.Condition, "condition")
		add(n.QuestionTok, "?")
		add(n.WhenTrue, "whenTrue")
		add(n.ColonTok, ":")
		add(n.WhenFalse, "whenFalse")
		exprKids = []formula.Expression{n.Condition, n.WhenTrue, n.WhenFalse}
	case *formula.ParenthesizedExpression:
		add(n.Expression, "inner")
		exprKids = []formula.Expression{n.Expression}
	case *formula.ArrayLiteralExpression:
		if n.Elements != nil {
			parts = append(parts, rng{n.Elements.Pos(), n.Elements.End(), "element list"})
			for i := 0; i < n.Elements.Len(); i++ {
				exprKids = append(exprKids, n.Elements.At(i))
			}
		}
	case *formula.SelectorExpression:
		add(n.Expression, "base")
		add(n.Name, "name")
		exprKids = []formula.Expression{n.Expression}
	case *formula.CallExpression:
		add(n.Expression, "callee")
		if n.Arguments != nil {
			parts = append(parts, rng{n.Arguments.Pos(), n.Arguments.End(), "argument list"})
		}
		add(n.DotDotDotToken, "...")
		exprKids = []formula.Expression{n.Expression}
		if n.Arguments != nil {
			for i := 0; i < n.Arguments.Len(); i++ {
				exprKids = append(exprKids, n.Arguments.At(i))
			}
		}
	}
	return
}

func listMembers(e formula.Expression) (lo, hi int, members []formula.Expression) {
	switch n := e.(type) {
	case *formula.ArrayLiteralExpression:
		if n.Elements != nil {
			for i := 0; i < n.Elements.Len(); i++ {
				members = append(members, n.Elements.At(i))
			}
			return n.Elements.Pos(), n.Elements.End(), members
		}
	case *formula.CallExpression:
		if n.Arguments != nil {
			for i := 0; i < n.Arguments.Len(); i++ {
				members = append(members, n.Arguments.At(i))
			}
			return n.Arguments.Pos(), n.Arguments.End(), members
		}
	}
	return 0, 0, nil
}

// checkRangesOnly: the nesting / ordering half of checkNode, for trees that are returned together
// with a syntax error (recovery nodes included): every range lies in the text, children lie in their
// parent in source order. (Their texts are not required to re-parse.)
func checkRangesOnly(text []byte, e formula.Expression, depth int) *eng.Fail {
	if e == nil || reflect.ValueOf(e).IsNil() || depth > 10000 {
		return nil
	}
	pos, end := e.Pos(), e.End()
	if pos < 0 || pos > end || end > len(text) {
		return eng.F("C15/error-tree-range", "in the tree returned with the error, %T has range [%d,%d) in a text of %d bytes", e, pos, end, len(text))
	}
	parts, kids := childRanges(e)
	prev := pos
	for _, p := range parts {
		if p.pos < pos || p.end > end || p.pos > p.end {
			return eng.F("C15/error-tree-range", "in the tree returned with the error, %T [%d,%d): %s has range [%d,%d)", e, pos, end, p.what, p.pos, p.end)
		}
		if p.pos < prev {
			return eng.F("C15/error-tree-order", "in the tree returned with the error, %T [%d,%d): %s at [%d,%d) starts before the previous part ended (%d)", e, pos, end, p.what, p.pos, p.end, prev)
		}
		prev = p.end
	}
	for _, k := range kids {
		if k == nil || reflect.ValueOf(k).IsNil() {
			continue
		}
		if f := checkRangesOnly(text, k, depth+1); f != nil {
			return f
		}
	}
	return nil
}

func checkNode(text []byte, e formula.Expression, depth int) *eng.Fail {
	pos, end := e.Pos(), e.End()
	if pos < 0 || pos > end || end > len(text) {
		return eng.F("C15/range-outside", "%T has range [%d,%d) in a text of %d bytes", e, pos, end, len(text))
	}
	parts, kids := childRanges(e)
	prev := pos
	for _, p := range parts {
		if p.pos < pos || p.end > end || p.pos > p.end {
			return eng.F("C15/child-outside", "%T [%d,%d): %s has range [%d,%d)", e, pos, end, p.what, p.pos, p.end)
		}
		if p.pos < prev {
			return eng.F("C15/child-order", "%T [%d,%d): %s at [%d,%d) starts before the previous part ended (%d)", e, pos, end, p.what, p.pos, p.end, prev)
		}
		prev = p.end
	}
	if lo, hi, members := listMembers(e); members != nil {
		pv := lo
		for i, m := range members {
			if m.Pos() < pv || m.End() > hi {
				return eng.F("C15/list-member", "%T: list member %d at [%d,%d) not inside the list [%d,%d) in order", e, i, m.Pos(), m.End(), lo, hi)
			}
			pv = m.End()
		}
	}
	// leaves cover exactly their own lexeme (after leading trivia)
	if f := checkLeaves(text, e); f != nil {
		return f
	}
	// the node's own text parses to the same subtree
	sub := safeParse(text[pos:end])
	if sub.panicked {
		return eng.F("C15/reparse-panic", "re-parsing %q panicked: %s", text[pos:end], sub.panicMsg)
	}
	if sub.err != nil {
		return eng.F("C15/reparse-rejected", "%T [%d,%d): its own text %q does not parse: %v", e, pos, end, text[pos:end], sub.err)
	}
	a, b := implTree(e, nil), implTree(sub.src.Expression, nil)
	if !sameTree(a, b) {
		return eng.F("C15/reparse-differs", "%T [%d,%d): text %q re-parses to %s, subtree is %s", e, pos, end, text[pos:end], b, a)
	}
	for _, k := range kids {
		if k == nil || reflect.ValueOf(k).IsNil() {
			continue
		}
		if f := checkNode(text, k, depth+1); f != nil {
			return f
		}
	}
	return nil
}

var catName = map[formula.DiagnosticCategory]string{formula.Warning: "warning", formula.Error: "error", formula.Information: "info"}

func judgeRanges(text []byte) *eng.Fail {
	o := safeParse(text)
	if o.panicked {
		return eng.F("C15/panic", "parser panicked: %s", o.panicMsg)
	}
	if o.err == nil {
		outcome(implTree(o.src.Expression, nil).String())
		return checkNode(text, o.src.Expression, 0)
	}
	if o.src == nil || len(o.src.Diagnostics) == 0 {
		// a syntax error is reported as pos(line, column) error(code) message: every rejection carries a diagnostic
		outcome("err without diagnostic")
		return eng.F("C15/error-without-position", "rejected with %q: no diagnostic, so no pos(line, column) error(code) locates the error", o.err.Error())
	}
	for i, d := range o.src.Diagnostics {
		if d.Start < 0 || d.Length < 0 || d.Start+d.Length > len(text) {
			return eng.F("C15/diagnostic-outside", "diagnostic %d (%q) covers [%d,%d) in a text of %d bytes", i, d.MessageText, d.Start, d.Start+d.Length, len(text))
		}
	}
	d := o.src.Diagnostics[0]
	line, col := lineColRef(lineStartsRef(text), d.Start)
	want := fmt.Sprintf("pos(%d, %d) %s(%d) %s", line, col, catName[d.Category], d.Code, d.MessageText)
	outcome(fmt.Sprintf("err %d:%d %d", line, col, d.Code))
	note("errors_with_position", 1)
	if o.err.Error() != want {
		return eng.F("C15/error-text", "error text %q, expected %q (first diagnostic at offset %d)", o.err.Error(), want, d.Start)
	}
	// formatting the same diagnostic again gives the same text
	if got := formula.FormatDiagnostic(o.src, d); got != want {
		return eng.F("C15/format-diagnostic", "FormatDiagnostic gives %q, expected %q", got, want)
	}
	// ... and still after other texts have been parsed and located in between
	if other := safeParse([]byte("a +\n\n  (b,\r\n c d")); !other.panicked && other.src != nil {
		for _, od := range other.src.Diagnostics {
			formula.FormatDiagnostic(other.src, od)
		}
	}
	if got := formula.FormatDiagnostic(o.src, d); got != want {
		return eng.F("C15/format-diagnostic", "after another text was parsed, FormatDiagnostic for this one gives %q, expected %q", got, want)
	}
	// the source that came back with the error locates every offset and every further diagnostic as well
	ls := lineStartsRef(text)
	for off := 0; off <= len(text); off++ {
		l, c := lineColRef(ls, off)
		if p := formula.GetFileLineAndCharacterFromPosition(o.src, off); p.Line != l || p.Column != c {
			return eng.F("C15/line-col", "after the error was formatted, GetFileLineAndCharacterFromPosition(source, %d) = (%d,%d), expected (%d,%d)", off, p.Line, p.Column, l, c)
		}
	}
	if got := formula.GetLineStarts(o.src); !reflect.DeepEqual(got, ls) {
		return eng.F("C15/line-starts", "GetLineStarts of the returned source = %v, expected %v", got, ls)
	}
	for i, dd := range o.src.Diagnostics {
		l, c := lineColRef(ls, dd.Start)
		if got, w := formula.FormatDiagnostic(o.src, dd), fmt.Sprintf("pos(%d, %d) %s(%d) %s", l, c, catName[dd.Category], dd.Code, dd.MessageText); got != w {
			return eng.F("C15/format-diagnostic", "diagnostic %d formats as %q, expected %q", i, got, w)
		}
	}
	if o.src.Expression != nil && os.Getenv("VERIF_C15_ERRTREE") != "0" {
		if f := checkRangesOnly(text, o.src.Expression, 0); f != nil {
			return f
		}
	}
	return nil
}

func judgeHelpers(text []byte) *eng.Fail {
	want := lineStartsRef(text)
	got := formula.ComputeLineStarts(text)
	if !reflect.DeepEqual(got, want) {
		return eng.F("C15/line-starts", "ComputeLineStarts(%q) = %v, expected %v", text, got, want)
	}
	// a table that was handed out stays what it was when tables for other texts are computed later
	formula.ComputeLineStarts([]byte("x\ny\r\nzz\n\nw"))
	formula.ComputeLineStarts([]byte("q"))
	if !reflect.DeepEqual(got, want) {
		return eng.F("C15/line-starts", "the table returned for %q changed to %v after tables for other texts were computed (expected %v)", text, got, want)
	}
	for off := 0; off <= len(text); off++ {
		l, c := lineColRef(want, off)
		p := formula.GetLineAndCharacterOfPosition(text, got, off)
		if p.Line != l || p.Column != c {
			return eng.F("C15/line-col", "GetLineAndCharacterOfPosition(%q, offset %d) = (%d,%d), expected (%d,%d)", text, off, p.Line, p.Column, l, c)
		}
		p2 := formula.PositionToLineAndCharacter(text, off)
		if p2.Line != l || p2.Column != c {
			return eng.F("C15/line-col", "PositionToLineAndCharacter(%q, offset %d) = (%d,%d), expected (%d,%d)", text, off, p2.Line, p2.Column, l, c)
		}
	}
	outcome(fmt.Sprint(want))
	return nil
}

var breakJoiners = []string{"", " ", "\t", "\u00A0", "\n", "\r", "\r\n", "\u2028", "\u2029", "\u0085"}
var helperAtoms = []string{"a", "\n", "\r", "\u2028", "\u2029", "\u0085", "中"}

func runC15(w *eng.W) {
	W = w
	q := w.Quick()
	do := func(leg string, src []byte) {
		w.State(1)
		w.Trans(1)
		w.Trace(1)
		w.Note("leg:"+leg, 1)
		w.Sample(leg, string(src))
		c15Src.Do(w, SrcCase{Src: append(Bytes(nil), src...)})
		if leg == "break-joiners" || leg == "infix-triples" || leg == "lookahead-forms" {
			// the same text after a byte order mark (white space for the scanner): offsets are offsets into THIS text
			c15Src.Do(w, SrcCase{Src: append(Bytes("\ufeff"), src...)})
		}
	}
	// helpers
	hn := 5
	if !q {
		hn = 7
	}
	for l := 0; l <= hn; l++ {
		seqsSharded(w, len(helperAtoms), l, func(idx []int) {
			b := joinIdx(helperAtoms, idx, "")
			w.State(int64(len(b) + 1))
			w.Trans(int64(len(b) + 1))
			w.Trace(int64(len(b) + 1))
			w.Note("leg:helpers", 1)
			w.Sample("helpers", string(b))
			c15Help.Do(w, SrcCase{Src: append(Bytes(nil), b...)})
		})
	}
	// token sequences with break joiners between tokens and at the very end
	kmax := 2
	if !q {
		kmax = 3
	}
	nj := len(breakJoiners)
	for l := 1; l <= kmax; l++ {
		seqsSharded(w, len(SigmaClass), l, func(idx []int) {
			seqs(nj, l, func(g []int) {
				var b []byte
				for i, x := range idx {
					b = append(b, SigmaClass[x]...)
					b = append(b, breakJoiners[g[i]]...)
				}
				do("break-joiners", b)
			})
		})
	}
	if q {
		// a reduced alphabet at length 3 keeps the quick tier short
		red := []string{"a", "1", "(", ")", "+", ",", ".", "#", "'s'"}
		seqsSharded(w, len(red), 3, func(idx []int) {
			seqs(nj, 3, func(g []int) {
				var b []byte
				for i, x := range idx {
					b = append(b, red[x]...)
					b = append(b, breakJoiners[g[i]]...)
				}
				do("break-joiners-reduced", b)
			})
		})
	}
	// string literals whose escapes are followed by every combination of hex and non-hex characters,
	// closed and unclosed, alone and inside a formula: whatever the verdict, a rejection is positioned
	escAlpha := []string{"0", "9", "a", "f", "g", "z", "A", "F", "G", "_", "'", "\\", "\n", " "}
	for _, intro := range []string{"\\x", "\\u", "\\", "\\0", "\\e"} {
		for l := 0; l <= 4; l++ {
			seqsSharded(w, len(escAlpha), l, func(idx []int) {
				body := intro + string(joinIdx(escAlpha, idx, ""))
				for _, form := range []string{"'%s'", "'%s", "f('%s', 1) +", "\"%s\"\n+ b", "ab%s", "total + x%s * 2", "12ab%s", "%sb", "a.%s"} {
					do("escape-forms", []byte(strings.Replace(form, "%s", body, 1)))
				}
			})
		}
	}
	for _, esc := range []string{"\\u0063", "\\u0031", "\\u4e2d", "\\u0024", "\\u005f", "\\u0020", "\\u{63}", "\\x63", "\\u00e9\\u0301"} {
		for _, form := range []string{"ab%s", "%sab", "a%sb + 1", "x.y%s", "12%s", "f(a%s, b%s)", "a\n.b%s", "%s"} {
			if w.Take() {
				do("identifier-escapes", []byte(strings.Replace(form, "%s", esc, -1)))
			}
		}
	}
	bl := 3
	if !q {
		bl = 4
	}
	byteSequences(w, "byte-sequences", bl, do)
	neighbourTexts(w, "neighbour-code-points", do)
	lookaheadForms(w, "lookahead-forms", do)
	tokenSeqs(w, "full-seq", SigmaFull, 3, do)
	infixTriples(w, "infix-triples", do)
	listForms(w, "list-forms", do)
	postfixChains(w, "postfix-chains", 2, do)
	prefixPostfix(w, "prefix-postfix", []string{"||", "+", "="}, do)
	gapSeqs(w, "class-gaps", SigmaClass, []string{" ", "\n", ""}, 3, do)
	k := 4
	if !q {
		k = 5
	}
	tokenSeqs(w, "class-seq", SigmaClass, k, do)
}

// oneLexeme reports whether text[pos:end] is leading trivia followed by exactly one token with
// the given text (identifier / keyword / operator).
func oneLexeme(text []byte, pos, end int, want string) bool {
	if pos < 0 || end > len(text) || pos > end {
		return false
	}
	toks := ref.Lex(text[pos:end])
	return len(toks) == 2 && toks[0].Text == want && toks[0].End == end-pos
}

func checkLeaves(text []byte, e formula.Expression) *eng.Fail {
	tokenOK := func(t *formula.TokenNode, what string) *eng.Fail {
		if t == nil {
			return nil
		}
		want, ok := tokText[t.Token]
		if !ok {
			return nil
		}
		if !oneLexeme(text, t.Pos(), t.End(), want) {
			return eng.F("C15/token-range", "%s token %q has range [%d,%d) covering %q", what, want, t.Pos(), t.End(), safeSlice(text, t.Pos(), t.End()))
		}
		return nil
	}
	switch n := e.(type) {
	case *formula.Identifier:
		if !oneLexeme(text, n.Pos(), n.End(), n.Value) {
			return eng.F("C15/identifier-range", "identifier %q has range [%d,%d) covering %q", n.Value, n.Pos(), n.End(), safeSlice(text, n.Pos(), n.End()))
		}
	case *formula.SelectorExpression:
		if n.Name != nil && !oneLexeme(text, n.Name.Pos(), n.Name.End(), n.Name.Value) {
			return eng.F("C15/name-range", "member name %q has range [%d,%d) covering %q", n.Name.Value, n.Name.Pos(), n.Name.End(), safeSlice(text, n.Name.Pos(), n.Name.End()))
		}
	case *formula.PrefixUnaryExpression:
		return tokenOK(n.Operator, "prefix operator")
	case *formula.BinaryExpression:
		return tokenOK(n.Operator, "binary operator")
	case *formula.ConditionalExpression:
		if f := tokenOK(n.QuestionTok, "?"); f != nil {
			return f
		}
		return tokenOK(n.ColonTok, ":")
	case *formula.CallExpression:
		return tokenOK(n.DotDotDotToken, "spread")
	}
	return nil
}

func safeSlice(text []byte, a, b int) string {
	if a < 0 || b > len(text) || a > b {
		return "<out of range>"
	}
	return string(text[a:b])
}
