package checks

import (
	"context"
	"fmt"
	"math"
	"os"
	"os/exec"
	"reflect"
	"sort"
	"strconv"
	"strings"
	"time"

	formula "github.com/aundis/formula"
	"github.com/ericlagergren/decimal"

	"verif/internal/eng"
)

// PureCase: a history of (pool entry, operation kind) pairs run in one process state.
type PureCase struct {
	Ops [][2]int `json:"ops"` // [entry, kind]  kind: 0 parse, 1 evaluate, 2 fields
}

var c08Hist *eng.Kind[PureCase]
var c08Refusal *eng.Kind[PureCase]

func init() {
	c := eng.Register(&eng.Check{
		ID:          "C08",
		Title:       "Evaluation is a pure function of formula text and data",
		Rule:        "a pool of formulas with data that together touch every node type, operator and builtin (except the clock functions) plus malformed texts; operations per entry: parse, evaluate in a fresh runner, analyse fields; every ordered pair of operations and every triple / quadruple over sub-pools is run as one history without state merging; every observation (canonical tree dump with positions, ids and parents; exact value or error text; field set) must equal the observation of the same operation executed alone in a pristine child process, and the dump of a shared tree must be identical before and after every evaluation / analysis; distinct = distinct observations",
		TrustedBase: []string{"tree dump through the public Node API in checks/c08.go", "pristine baselines computed by one child process per operation"},
		Assumptions: []string{"workers run under TZ=UTC", "now and toDay are excluded (the only documented exceptions)"},
		Run:         runC08,
		Workers:     8,
		Env:         func(int) []string { return []string{"TZ=UTC"} },
	})
	c08Hist = eng.NewKind(c, "history", judgePure)
	c08Refusal = eng.NewKind(c, "refusal-then-reuse", judgeRefusal)
	c08Names = eng.NewKind(c, "many-names", judgeManyNames)
}

type poolEntry struct {
	src    string
	data   func() map[string]interface{} // nil: malformed text, only parsed
	noData bool                          // evaluate with a runner that never got a data map
}

// variant data maps: the same formula text over data that differs only in one entry (caches
// keyed by text, by value or by name would confuse them)
func c08With(kv ...interface{}) func() map[string]interface{} {
	return func() map[string]interface{} {
		m := c08Data()
		for i := 0; i+1 < len(kv); i += 2 {
			m[kv[i].(string)] = kv[i+1]
		}
		return m
	}
}

type pStruct2 struct {
	Qty  int
	Name string
}

type pStruct struct {
	A int
	B string
}

func c08Data() map[string]interface{} {
	return map[string]interface{}{
		"a": 1.0, "b": 2.5, "c": 4, "x": int64(7), "y": -3.25, "n": nil, "s": "abc", "z": true,
		"t":    time.Date(2024, 3, 5, 14, 7, 9, 0, time.UTC),
		"p":    map[string]interface{}{"age": 30.0, "name": map[string]interface{}{"first": "Ann"}},
		"st":   pStruct{A: 3, B: "bee"},
		"rows": []map[string]interface{}{{"k": "r1"}, {"k": "r2"}},
		"f":    func(n int, s string) (string, error) { return strconv.Itoa(n) + s, nil },
		"cf":   func(ctx context.Context, x float64) (float64, error) { return x * 2, nil },
		"vf":   func(first int, rest ...int) (int, error) { return first + len(rest), nil },
		"ef":   func() (int, error) { return 0, fmt.Errorf("deliberate") },
		// a map whose entries all fail to convert, each with a different message
		"fm":   func(m map[string]int) (int, error) { return len(m), nil },
		"fmi":  func(m map[string]interface{}) (int, error) { return len(m), nil },
		"bad3": map[string]interface{}{"k1": "x", "k2": true, "k3": []int{1}, "k4": map[string]int{}, "k5": "y"},
		"ok3":  map[string]interface{}{"k1": 1.0, "k2": 2.0, "k3": 3.0},
		// failing entries whose keys print alike (1 and "1"; [2]string{"a b","c"} and {"a","b c"})
		"fmk": func(m map[interface{}]int) (int, error) { return len(m), nil },
		// entries that are not of the element's shape at all (a string or a boolean where a map is expected,
		// a null where a list is): whichever entry the conversion meets first, the error is the same
		"fmm":  func(m map[string]map[string]string) (int, error) { return len(m), nil },
		"fml":  func(m map[string][]string) (int, error) { return len(m), nil },
		"bad2": map[string]interface{}{"a": "x", "b": true, "c": 7, "d": []int{1}},
		"badn": map[string]interface{}{"a": nil, "b": "x", "c": true, "d": map[string]int{}},
		"badk": map[interface{}]interface{}{1: "x", "1": true, int64(1): []int{1}, [2]string{"a b", "c"}: "y", [2]string{"a", "b c"}: false},
	}
}

// c08Shared is handed to every evaluation of the shared-data entries as the very same object.
var c08Shared = map[string]interface{}{
	"tags":   []string{"beta", "alpha", "gamma", "alpha"},
	"nums":   []interface{}{3.0, 1.0, 2.0},
	"srows":  []map[string]interface{}{{"k": "r2"}, {"k": "r1"}},
	"smap":   map[string]interface{}{"b": "B", "a": "A"},
	"big":    decimal.New(1, -100), // 1e100, a number object owned by the caller
	"neg":    decimal.New(-25, 1),
	"cyc":    c08Cyclic,
	"holder": []interface{}{c08Inner, "x"},
	"fss":    func(xs []string) (string, error) { return strings.Join(xs, "/"), nil },
	"fsi":    func(xs []interface{}) (int, error) { return len(xs), nil },
}

var c08SharedSrc = map[string]bool{}

// a list that contains itself and, next to it, a harmless list that shares one member with it: the
// refusal of the first leaves nothing behind that makes the second look cyclic
var c08Inner = []interface{}{1.0, "in"}
var c08Cyclic = func() []interface{} {
	c := []interface{}{c08Inner, nil}
	c[1] = c
	return c
}()

var c08Pool = func() []poolEntry {
	srcs := []string{
		"1 + 2 * 3", "(a + b) / c % 7", "-x * +y", "~5 & 3 | 8 ^ 2", "10 / 4", "0.1 + 0.2 === 0.3", "1_000 + .5 + 2.e1",
		"a < b", "a >= b", "'a' < 'b'", "a == '1'", "a !== b", "null === n", "a != b", "a <= c", "a > y",
		"a && b || c", "n ?? 5", "!a", "!!s", "c ? a : b", "z ? (n ? 1 : 2) : 3",
		"'x' + s + \"\\n\\x41\\u4e2d\"", "startWith(s,'a')", "endWith(s,'c')", "contains(s,'b')", "find(s,'c')", "left(s,2) + right(s,1)", "mid(s,1,2)",
		"lpad(s,'x',6)", "rpad(s,' ',5)", "replace(s,'b','zz')", "trim('  q ')", "lower('AbC') + upper('dEf')", "len(s)", "regexp(s,'^a.c$')",
		"join(['a','b'],'-')", "includes(['a','b'],'b')", "mapToArr(rows,'k')",
		"abs(-2.5)", "ceil(1.2) + floor(-1.2)", "round(2.5)", "roundBank(2.5)", "max(1,5,3) - min(4,2)", "sqrt(2)", "exp(1)", "ln(10)", "log(1000)",
		"finite(1/0)", "toInt('3.9')", "toFloat('5.5')", "toString(1.50)", "roundCash(1.03, 2)",
		"year(date(2024,2,30))", "month(addDate(date(2024,1,31),0,1,0))", "day(t)", "hour(t) * 60 + minute(t)", "second(t)", "weekDay(date(2024,1,1))",
		"millSecond(date(2000,1,1))", "timeFormat(t,'2006-01-02')", "hour(useTimezone(t,'Asia/Shanghai'))",
		"p.age + 1", "p.name.first", "p!.age", "this.a", "st.A", "n.x.y",
		"$v = a + 1, $v * 2", "[$q = 1, $q + 1]", "f(1, 'x')", "cf(a)", "vf(1, [2,3]...)", "typeof a", "[typeof s, typeof n, typeof z]", "[1, 'a', [2]]",
		"[1 + 2, 3 + 4, a - b, a * b]", "(a + b) * (c - x) / (y + 1)", "[a / 3, b / 3, a % 2, b % 2]", "[-a, -b, +a, ~c, ~x]", "$m = a + b, $k = a + c, [$m, $k]",
		"((a + 1)) * 2", "max(((a)), 2) + (((b)))", "(((s)))", "c ? ((a)) : ((b))",
		"leaked + other.path + this.b", "a + (b).c", "f(x).y + zz", "[first, (second).k, third]",
		"toInt(1e-70) + floor(1e-80) + ceil(-1e-90) + round(1e-100) + roundBank(-1e-75)", "toString(2/3) + '|' + toString(1/7*3) + '|' + toString(2/3*3 == 2) + '|' + toString(1/3 + 1/3)",
		"date(1e-70, 1, 1)", "left(s, 1e-70) + toString(10/3)", "[1e-70 % 3, 7 % 1e9000, 1e9000 % 7]",
		"(n ?? n)!.c", "(n ? a : n)!.c", "(z && n)!.x", "[n][0]", "f(1, 'x')!.y", "(a + b)!.z", "(typeof n)!.k + 1",
		"foo()", "left(s,-1)", "n!.y", "regexp(s,'(')", "ef()", "x = 1", "[a].b",
		"fm(bad3)", "fm(ok3)", "fmi(bad3)", "fmk(badk)", "fmm(bad2)", "fml(badn)", "fmm(badn)", "fml(bad2)",
		"$g = 5e70, [ln($g) == ln($g), log($g), log($g), $g]", "[log(1e100), ln(3e65), sqrt(4e70), exp(-200)]", "n!.alpha", "n!.beta", "p.zz!.alpha.beta", "toString(bad3) + toString(ok3)", "join([bad3, ok3], ';')",
	}
	var pool []poolEntry
	for _, s := range srcs {
		pool = append(pool, poolEntry{src: s, data: c08Data})
	}
	variants := []struct {
		src string
		kvs [][]interface{}
	}{
		{"toString(q) + '|' + toString(1/q) + '|' + toString(q * -1)", [][]interface{}{{"q", 0.0}, {"q", math.Copysign(0, -1)}, {"q", 0}, {"q", float32(0)}, {"q", "0"}}},
		{"[x, x + 1, toString(x), typeof x, x == 1, x === 1]", [][]interface{}{{"x", 1}, {"x", 1.0}, {"x", "1"}, {"x", int64(1) << 60}, {"x", 1.5}, {"x", true}, {"x", int32(1)}}},
		{"regexp(s, pat)", [][]interface{}{{"pat", "^a"}, {"pat", "c$"}, {"pat", "^b"}, {"pat", "^a", "s", "bca"}}},
		{"timeFormat(useTimezone(t, zn), lay)", [][]interface{}{{"zn", "UTC", "lay", "15:04"}, {"zn", "Asia/Shanghai", "lay", "15:04"}, {"zn", "America/New_York", "lay", "15:04"}, {"zn", "UTC", "lay", "2006-01-02"}}},
		{"f(1, 'x')", [][]interface{}{{"f", func(a, b interface{}) (string, error) { return "two-any", nil }}, {"f", func(xs ...interface{}) (int, error) { return len(xs), nil }}, {"f", func(ctx context.Context, n float64, s string) (string, error) { return s, nil }}}},
		{"p.age + len(p.name.first)", [][]interface{}{{"p", map[string]interface{}{"age": 1.0, "name": map[string]interface{}{"first": "Bo"}}}, {"p", map[string]interface{}{"age": int64(7), "name": map[string]interface{}{"first": ""}}}}},
		{"max(a, b, y) + min(a, b, y) + abs(y) + round(b) + toInt(y)", [][]interface{}{{"y", 9.5}, {"y", -9.5, "b", 0.5}, {"a", 100}}},
		{"[max([a, 0]...), join([s, 'kg'], ' '), [b, 1, 'k'], [[a], 2]]", [][]interface{}{{"a", 5.0}, {"a", 9.0, "s", "t"}, {"a", "x", "b", nil}}},
		{"(a > 1 ? 'big' : 'small') + (typeof a) + toString([a, 1] == null)", [][]interface{}{{"a", 5.0}, {"a", 0.5}, {"a", "5"}}},
		{"rec.Name + ':' + rec.Qty + ':' + len(rec.Name)", [][]interface{}{
			{"rec", struct {
				Name string
				Qty  int
			}{"bolt", 3}},
			{"rec", struct {
				Qty  int
				Name string
			}{4, "nut"}},
			{"rec", struct {
				ID   int
				Qty  float64
				Name string
			}{1, 2.5, "washer"}},
			{"rec", pStruct2{Qty: 9, Name: "named"}},
			{"rec", map[string]interface{}{"Name": "m", "Qty": 1.0}}}},
		{"lpad(s, 'x', c) + left(s, a) + mid(s, a, c)", [][]interface{}{{"s", "abcdefgh"}, {"s", "中文字符", "c", 6}, {"a", 0, "c", 0}}},
	}
	for _, v := range variants {
		for _, kv := range v.kvs {
			pool = append(pool, poolEntry{src: v.src, data: c08With(kv...)})
		}
	}
	// data objects that are NOT rebuilt for every evaluation: an evaluation that reorders, truncates or
	// rewrites a caller's slice or map changes what the next evaluation of the same tree sees
	// an unset Go time in the data is 1 January of year 1 for every time builtin; nothing but now and toDay reads the clock
	for _, s := range []string{"timeFormat(addDate(unset, 0, 0, 1), '2006-01-02T15:04:05.000000000')", "[year(addDate(unset, 1, 0, 0)), millSecond(addDate(unset, 0, 0, 0)), year(unset), timeFormat(unset, '15:04:05.000000')]",
		"timeFormat(addDate(date(1, 1, 1), 0, 1, 0), '2006-01-02T15:04:05.000000000')", "timeFormat(useTimezone(unset, 'Asia/Shanghai'), '2006-01-02T15:04:05.000000000') + hour(unset) + weekDay(unset)"} {
		pool = append(pool, poolEntry{src: s, data: c08With("unset", time.Time{})})
	}
	for _, s := range []string{"['a', 'b', true, null]", "[['x', 'y'], 'z', [null, false]]", "z ? ['p', 'q'] : ['r']", "[['k'], [a], ['k']]"} {
		pool = append(pool, poolEntry{src: s, data: c08Data})
	}
	for _, s := range []string{"join(tags, ',') + (includes(tags, 'gamma') ? '!' : '?')", "includes(tags, 'alpha') + join(tags, '-')", "[max(nums...), min(nums...), nums]", "mapToArr(srows, 'k')",
		"join(mapToArr(srows, 'k'), '+') + len(tags)", "[tags, nums, srows, smap.b + smap.a]", "left(join(tags, ''), 3) + right(join(tags, ''), 2)", "fss(tags) + fsi(nums)",
		"[log(big), ln(big), log(big), big]", "[abs(neg), floor(neg), -neg, neg]", "max(big, neg) + min(neg, big)",
		"toString(cyc)", "toString(holder) + join(holder, ';')", "'' + holder + fsi(holder)"} {
		pool = append(pool, poolEntry{src: s, data: func() map[string]interface{} { return c08Shared }})
		c08SharedSrc[s] = true
	}
	// names with characters that may continue a name but not begin one (combining marks, non-ASCII digits,
	// joiners), at the beginning and inside: what one text scans to does not depend on the texts before it
	for _, s := range []string{"prix_entre\u0301e * 2", "\u0301x + 1", "a\u0663 + 1", "\u0663a + 1", "\u00e9t\u00e9 + 1", "x\u200c + 1", "\u200cx + 1", "\u4e2d\u6587 + 1", "a\u0300\u0301 + \u00e9", "\u0300", "\u0663", "_\u0663 + $\u0301",
		"\u09e6x", "x\u09e6 + 1", "\u0903a", "a\u0903 + 1", "\uff11x", "x\uff11 + 1", "\u203fx", "x\u203f + 1"} {
		pool = append(pool, poolEntry{src: s, data: c08With("prix_entre\u0301e", 3.0, "a\u0663", 1.0, "\u00e9t\u00e9", 2.0, "x\u200c", 4.0, "\u4e2d\u6587", 5.0, "a\u0300\u0301", 6.0, "\u00e9", 7.0, "_\u0663", 8.0, "x\u09e6", 9.0, "a\u0903", 10.0, "x\uff11", 11.0, "x\u203f", 12.0)})
	}
	// numbers whose exponent is beyond every range (refused) next to ordinary exponents, as literals and as text
	for _, s := range []string{"1e99999999999999999999 + 1", "7e-99999999999999999999", "toFloat('1e99999999999999999999')", "1.5e3 + 1", "toFloat('2.5e1') + ('2.5e1' * 2)", "25e-1 == 2.5", "1e400 + 1e-400"} {
		pool = append(pool, poolEntry{src: s, data: c08Data})
	}
	// one name, several functions: what a call does depends on the function the name holds now, not on
	// what was called under that name before (same number of parameters, different shapes)
	for _, s := range []string{"$pick = abs, $pick(0-7)", "$pick = max, $pick(1, 2, 3)", "$pick = min, $pick(4)", "$pick = left, $pick('abcdef', 2)", "$pick = right, $pick('abcdef', 2)", "$pick = len, $pick('abc')", "$pick = toString, $pick(1.50)", "$pick = join, $pick(['a', 'b'], '-')",
		"$pick = find, $pick('abc', 'c')", "$pick = round, $pick(2.5)", "$pick = vf, $pick(1, [2, 3]...)", "$pick = cf, $pick(a)"} {
		pool = append(pool, poolEntry{src: s, data: c08Data})
	}
	for _, call := range []string{"g1(7)", "g1()", "g1(7, 8)", "g1([7, 8]...)"} {
		for _, fn := range []interface{}{func(x interface{}) (string, error) { return fmt.Sprint("one:", x), nil }, func(xs ...interface{}) (string, error) { return fmt.Sprint("variadic:", len(xs)), nil },
			func(ctx context.Context) (string, error) { return fmt.Sprint("ctx:", ctx != nil), nil }, func(x float64) (float64, error) { return x + 1, nil }, func(xs []interface{}) (int, error) { return len(xs), nil }} {
			pool = append(pool, poolEntry{src: call, data: c08With("g1", fn)})
		}
	}
	for _, call := range []string{"h2(1, 2)", "h2(1)", "h2(1, 2, 3)"} {
		for _, fn := range []interface{}{func(a, b interface{}) (string, error) { return fmt.Sprint("two:", a, b), nil }, func(ctx context.Context, a interface{}) (string, error) { return fmt.Sprint("ctx+one:", a), nil },
			func(a interface{}, rest ...interface{}) (string, error) { return fmt.Sprint("one+variadic:", a, len(rest)), nil }, func(ctx context.Context, rest ...interface{}) (string, error) { return fmt.Sprint("ctx+variadic:", len(rest)), nil }} {
			pool = append(pool, poolEntry{src: call, data: c08With("h2", fn)})
		}
	}
	pool = append(pool, poolEntry{src: "u.name + '|' + u.Name + '|' + u.NAME + '|' + u.nAmE", data: c08With("u", map[string]interface{}{"Name": "alice", "NAME": "bob", "nom": "x"})})
	for _, s := range []string{"$v = 1, $v", "[$v, $q, $m, $k]", "$nv ?? 'unset'", "$v = a + 1, $v * 2", "$m = 2, $k = 3, [$m, $k]", "this", "[a, s, n]"} {
		pool = append(pool, poolEntry{src: s, data: c08Data, noData: true})
	}
	for _, s := range []string{"1 +", "(a", "[1,", "'abc", "a ? b", "1 2", "#", "a..b", "f(,)", "1 +\r\n", "a\n.b", "0x1F", "'\\xzz'", "\"\\uzzzz\"", "'C:\\users\\xavier'", "(1 2", "a b", "[1, 2", "f(a,, b)", "1_", "'\\u12'"} {
		pool = append(pool, poolEntry{src: s})
	}
	return pool
}()

// dumpTree renders the whole source object through the public API.
// dumpIDs: raw node ids are part of the dump only when one and the same tree object is compared
// with itself (before/after an operation); across parses only the structure counts.
var dumpIDs = true

func dumpTree(src *formula.SourceCode) string {
	if src == nil {
		return "<nil source>"
	}
	var b strings.Builder
	sid := src.ID()
	if !dumpIDs {
		sid = 0
	}
	fmt.Fprintf(&b, "src[%d,%d) nodes=%d idents=%d linestarts=%v id=%d parent=%v eof=", src.Pos(), src.End(), src.NodeCount, src.IdentifierCount, src.LineStarts, sid, src.Parent() != nil)
	if src.EndOfFileToken != nil {
		fmt.Fprintf(&b, "%d[%d,%d)", int(src.EndOfFileToken.Token), src.EndOfFileToken.Pos(), src.EndOfFileToken.End())
	}
	for _, d := range src.Diagnostics {
		fmt.Fprintf(&b, " diag(%d,%d,%d,%d,%q)", d.Start, d.Length, int(d.Category), d.Code, d.MessageText)
	}
	b.WriteString(" tree=")
	var rec func(e formula.Node)
	hdr := func(e formula.Node, name string) {
		id := e.ID()
		if !dumpIDs {
			id = 0
		}
		fmt.Fprintf(&b, "(%s[%d,%d)#%d^%v", name, e.Pos(), e.End(), id, e.Parent() != nil)
	}
	tok := func(t *formula.TokenNode) {
		if t == nil {
			b.WriteString(" tok<nil>")
			return
		}
		id := t.ID()
		if !dumpIDs {
			id = 0
		}
		fmt.Fprintf(&b, " tok%d[%d,%d)#%d^%v", int(t.Token), t.Pos(), t.End(), id, t.Parent() != nil)
	}
	rec = func(e formula.Node) {
		if e == nil || reflect.ValueOf(e).IsNil() {
			b.WriteString("<nil>")
			return
		}
		switch n := e.(type) {
		case *formula.Identifier:
			hdr(n, "id")
			fmt.Fprintf(&b, " %q/%d", n.Value, int(n.OriginalToken))
		case *formula.LiteralExpression:
			hdr(n, "lit")
			fmt.Fprintf(&b, " %d %q", int(n.Token), n.Value)
		case *formula.PrefixUnaryExpression:
			hdr(n, "prefix")
			tok(n.Operator)
			b.WriteByte(' ')
			rec(n.Operand)
		case *formula.TypeOfExpression:
			hdr(n, "typeof")
			b.WriteByte(' ')
			rec(n.Expression)
		case *formula.BinaryExpression:
			hdr(n, "bin")
			tok(n.Operator)
			b.WriteByte(' ')
			rec(n.Left)
			b.WriteByte(' ')
			rec(n.Right)
		case *formula.ConditionalExpression:
			hdr(n, "cond")
			tok(n.QuestionTok)
			tok(n.ColonTok)
			for _, k := range []formula.Expression{n.Condition, n.WhenTrue, n.WhenFalse} {
				b.WriteByte(' ')
				rec(k)
			}
		case *formula.ParenthesizedExpression:
			hdr(n, "paren")
			b.WriteByte(' ')
			rec(n.Expression)
		case *formula.ArrayLiteralExpression:
			hdr(n, "arr")
			if n.Elements != nil {
				fmt.Fprintf(&b, " list[%d,%d)", n.Elements.Pos(), n.Elements.End())
				for i := 0; i < n.Elements.Len(); i++ {
					b.WriteByte(' ')
					rec(n.Elements.At(i))
				}
			}
		case *formula.SelectorExpression:
			hdr(n, "sel")
			fmt.Fprintf(&b, " assert=%v ", n.Assert)
			rec(n.Expression)
			b.WriteByte(' ')
			if n.Name != nil {
				rec(n.Name)
			}
		case *formula.CallExpression:
			hdr(n, "call")
			tok(n.DotDotDotToken)
			b.WriteByte(' ')
			rec(n.Expression)
			if n.Arguments != nil {
				fmt.Fprintf(&b, " list[%d,%d)", n.Arguments.Pos(), n.Arguments.End())
				for i := 0; i < n.Arguments.Len(); i++ {
					b.WriteByte(' ')
					rec(n.Arguments.At(i))
				}
			}
		default:
			fmt.Fprintf(&b, "(%T", e)
		}
		b.WriteByte(')')
	}
	rec(src.Expression)
	return b.String()
}

func showExact(v interface{}) string {
	switch n := v.(type) {
	case nil:
		return "null"
	case *decimal.Big:
		return fmt.Sprintf("num:%s/scale%d", n.String(), n.Scale())
	case float64:
		return "f64:" + strconv.FormatFloat(n, 'g', -1, 64)
	case string:
		return "str:" + strconv.Quote(n)
	case bool:
		return "bool:" + strconv.FormatBool(n)
	case time.Time:
		return "time:" + n.Format(time.RFC3339Nano) + "@" + n.Location().String()
	case []interface{}:
		p := make([]string, len(n))
		for i, e := range n {
			p[i] = showExact(e)
		}
		return "[" + strings.Join(p, ",") + "]"
	case map[string]interface{}:
		keys := make([]string, 0, len(n))
		for k := range n {
			keys = append(keys, k)
		}
		sort.Strings(keys)
		p := make([]string, len(keys))
		for i, k := range keys {
			if reflect.ValueOf(n[k]).Kind() == reflect.Func {
				p[i] = k + ":func"
			} else {
				p[i] = k + ":" + showExact(n[k])
			}
		}
		return "{" + strings.Join(p, ",") + "}"
	}
	rv := reflect.ValueOf(v)
	if rv.Kind() == reflect.Func {
		return "func"
	}
	return fmt.Sprintf("go:%T:%v", v, v)
}

// observe runs one operation; shared holds the trees of this history (process state).
func observe(entry, kind int, shared map[string]*formula.SourceCode) (obs string, fail *eng.Fail) {
	e := c08Pool[entry]
	switch kind {
	case 0:
		// the text is a window of a larger buffer of the caller (formulas stored back to back): parsing
		// reads the window and writes nowhere
		const guard = "\x01next formula in the caller's buffer"
		whole := append(append(make([]byte, 0, len(e.src)+len(guard)+8), e.src...), guard...)
		o := safeParse(whole[:len(e.src)])
		if o.panicked {
			return "panic:" + o.panicMsg, nil
		}
		if string(whole[:len(e.src)]) != e.src || string(whole[len(e.src):]) != guard {
			return "", eng.F("C08/caller-buffer-written", "parsing %q from a window of a larger buffer changed the caller's bytes: the buffer now reads %q", e.src, string(whole))
		}
		dumpIDs = false // two parses of one text must be structurally identical; ids are not structure
		defer func() { dumpIDs = true }()
		s := dumpTree(o.src)
		if o.err != nil {
			s += " ERR=" + o.err.Error()
			if o.src != nil {
				for _, d := range o.src.Diagnostics {
					s += " | " + formula.FormatDiagnostic(o.src, d)
				}
				s += " AFTER-FORMAT=" + dumpTree(o.src)
			}
		}
		if _, ok := shared[e.src]; !ok && o.err == nil {
			shared[e.src] = o.src // entries with the same text share ONE tree (parse once, evaluate per record)
		}
		return s, nil
	case 1, 2:
		src, ok := shared[e.src]
		var buf []byte // the caller's buffer the tree was parsed from (when it was parsed here)
		if !ok {
			buf = []byte(e.src)
			o := safeParse(buf)
			if o.panicked || o.err != nil {
				return "unparsable", nil
			}
			src = o.src
			shared[e.src] = src
		}
		before := dumpTree(src)
		if kind == 1 {
			r := formula.NewRunner()
			if !e.noData {
				r.SetThis(e.data())
			}
			o := safeResolve(r, bg, src.Expression)
			switch {
			case o.panicked:
				obs = "panic:" + o.panicMsg
			case o.err != nil:
				obs = "error:" + o.err.Error()
				retained = append(retained, retainedVal{o.err, obs, e.src}) // an error handed out keeps its text
			default:
				obs = showExact(o.val)
				retained = append(retained, retainedVal{o.val, obs, e.src})
			}
			if !o.panicked && o.err == nil && !e.noData && !strings.Contains(e.src, "$") && !c08SharedSrc[e.src] {
				// the result belongs to its consumer: another evaluation's result, overwritten by ITS
				// consumer, leaves this one and every later one as they are
				r3 := formula.NewRunner()
				r3.SetThis(e.data())
				if o3 := safeResolve(r3, bg, src.Expression); !o3.panicked && o3.err == nil {
					scribbleLists(o3.val, "scribbled")
					if now := showExact(o.val); now != obs {
						return obs, eng.F("C08/results-share-storage", "%q evaluated twice; writing to the lists of the second result changed the first from %s to %s", e.src, tail200(obs), tail200(now))
					}
					r4 := formula.NewRunner()
					r4.SetThis(e.data())
					if o4 := safeResolve(r4, bg, src.Expression); !o4.panicked && o4.err == nil {
						if now := showExact(o4.val); now != obs {
							return obs, eng.F("C08/results-share-storage", "%q evaluates to %s; after a consumer wrote to the lists of one result, the same tree evaluates to %s", e.src, tail200(obs), tail200(now))
						}
					}
				}
			}
			if buf != nil && len(buf) > 0 {
				// the caller goes on to use its buffer for the next text: the tree parsed from it is a value
				// of its own (a formula parsed in between must not change what this tree evaluates to)
				next := "'other' + (9 - 8) * zz"
				for i := range buf {
					buf[i] = next[i%len(next)]
				}
				safeParse(buf)
				r2 := formula.NewRunner()
				if !e.noData {
					r2.SetThis(e.data())
				}
				o2 := safeResolve(r2, bg, src.Expression)
				obs2 := ""
				switch {
				case o2.panicked:
					obs2 = "panic:" + o2.panicMsg
				case o2.err != nil:
					obs2 = "error:" + o2.err.Error()
				default:
					obs2 = showExact(o2.val)
				}
				if obs2 != obs && !strings.Contains(e.src, "$") && e.src != "" {
					return obs, eng.F("C08/tree-follows-buffer", "%q evaluates to %s; after the caller reused the byte slice it was parsed from for another text, the same tree evaluates to %s", e.src, tail200(obs), tail200(obs2))
				}
			}
		} else {
			func() {
				defer func() {
					if r := recover(); r != nil {
						obs = fmt.Sprint("panic:", r)
					}
				}()
				f1, err1 := formula.ResolveReferenceFields(src)
				f2, err2 := formula.ResolveReferenceFieldsNotLocal(src)
				sort.Strings(f1)
				sort.Strings(f2)
				obs = fmt.Sprintf("%q %v | %q %v", f1, err1, f2, err2)
			}()
		}
		if after := dumpTree(src); after != before {
			return obs, eng.F("C08/tree-changed", "%s of %q changed the shared tree\n  before: %s\n  after:  %s", []string{"", "evaluation", "field analysis"}[kind], e.src, before, after)
		}
		return obs, nil
	}
	return "", eng.F("harness/kind", "bad kind")
}

type retainedVal struct {
	v   interface{}
	obs string
	src string
}

// results handed back by earlier evaluations of the current history; they must never change
var retained []retainedVal

var c08Baseline = map[[2]int]string{}

// C08ChildMain is the pristine-baseline child: it performs exactly one operation.
func C08ChildMain(args []string) {
	entry, _ := strconv.Atoi(args[0])
	kind, _ := strconv.Atoi(args[1])
	obs, f := observe(entry, kind, map[string]*formula.SourceCode{})
	if f != nil {
		obs = "FAIL:" + f.Msg
	}
	os.Stdout.WriteString(obs)
}

func baseline(entry, kind int) (string, error) {
	k := [2]int{entry, kind}
	if b, ok := c08Baseline[k]; ok {
		return b, nil
	}
	cmd := exec.Command(os.Args[0], "-c08obs", strconv.Itoa(entry), strconv.Itoa(kind))
	cmd.Env = append(os.Environ(), "TZ=UTC")
	out, err := cmd.Output()
	if err != nil {
		return "", fmt.Errorf("baseline child for entry %d kind %d: %v", entry, kind, err)
	}
	c08Baseline[k] = string(out)
	return string(out), nil
}

func judgePure(c PureCase) *eng.Fail {
	shared := map[string]*formula.SourceCode{}
	retained = nil
	kinds := []string{"parse", "evaluate", "fields"}
	defer func() { retained = nil }()
	for i, op := range c.Ops {
		if op[0] < 0 || op[0] >= len(c08Pool) || op[1] < 0 || op[1] > 2 {
			return eng.F("harness/op", "bad op")
		}
		want, err := baseline(op[0], op[1])
		if err != nil {
			return eng.F("harness/baseline", "%v", err)
		}
		got, f := observe(op[0], op[1], shared)
		if f != nil {
			return f
		}
		outcome(got)
		for _, rv := range retained {
			if err, isErr := rv.v.(error); isErr {
				if now := "error:" + err.Error(); now != rv.obs {
					return eng.F("C08/result-mutated-later", "the error returned earlier for %q read %q and reads %q after operation %d (%s of %q)", rv.src, rv.obs, now, i+1, kinds[op[1]], c08Pool[op[0]].src)
				}
				continue
			}
			if now := showExact(rv.v); now != rv.obs {
				return eng.F("C08/result-mutated-later", "the value returned earlier for %q was %s and is now %s after operation %d (%s of %q)", rv.src, rv.obs, now, i+1, kinds[op[1]], c08Pool[op[0]].src)
			}
		}
		if got != want {
			var hist []string
			for _, o := range c.Ops[:i+1] {
				hist = append(hist, kinds[o[1]]+"("+strconv.Quote(c08Pool[o[0]].src)+")")
			}
			return eng.F("C08/history-dependent", "operation %d of %v observes\n  %s\nbut alone in a fresh process it observes\n  %s", i+1, hist, tail200(got), tail200(want))
		}
	}
	return nil
}

// judgeRefusal: a value that contains itself is refused; once the caller has taken the cycle out, the same
// objects convert like any others (nothing of the refusal is remembered), in fresh runners and repeatedly.
func judgeRefusal(c PureCase) *eng.Fail {
	mid := []interface{}{1.0, nil}
	mid[1] = mid
	outer := []interface{}{mid, "o"}
	m := map[string]interface{}{"k": outer}
	data := func() map[string]interface{} {
		return map[string]interface{}{"outer": outer, "m": m, "holder": []interface{}{mid, outer}}
	}
	forms := []string{"toString(outer)", "'' + m", "join([holder], ';')", "toString(holder) + toString(outer)"}
	for round := 0; round < 3; round++ {
		for _, f := range forms {
			o, err := evalWith(f, data())
			if err != nil || o.panicked {
				return eng.F("C08/eval", "%s: %v %s", f, err, o.panicMsg)
			}
			if o.err == nil {
				return eng.F("C08/cyclic-accepted", "%s on a list that contains itself = %s, expected an error", f, show(o.val))
			}
		}
	}
	mid[1] = "end" // the caller takes the cycle out
	want := []string{"[[1 end] o]", "map[k:[[1 end] o]]", "[[1 end] [[1 end] o]]", "[[1 end] [[1 end] o]][[1 end] o]"}
	for round := 0; round < 2; round++ {
		for i, f := range forms {
			o, err := evalWith(f, data())
			if err != nil || o.panicked || o.err != nil {
				return eng.F("C08/refusal-remembered", "%s after the cycle was taken out of the data: %v %v %s (expected %q; the same formula with equal data in a fresh runner)", f, err, o.err, o.panicMsg, want[i])
			}
			if got, _ := o.val.(string); got != want[i] {
				return eng.F("C08/refusal-remembered", "%s after the cycle was taken out of the data = %q, expected %q", f, got, want[i])
			}
		}
	}
	outcome("refusal-then-reuse")
	return nil
}

// NamesCase: From..To distinct names of one length, each parsed, analysed and evaluated in one process: the
// tree of every text carries its own name (whatever the names before it were).
type NamesCase struct {
	From, To int
	Style    int
}

var c08Names *eng.Kind[NamesCase]

func c08Name(style, i int) string {
	switch style {
	case 0:
		return fmt.Sprintf("k%07x", uint32(i)*2654435761>>4)
	case 1:
		w := []string{"team", "dept", "rate", "week", "code", "open", "year", "unit", "cost", "item", "size", "rank", "page", "node", "user", "zone"}
		return w[i&15] + "_" + w[(i>>4)&15] + "_" + w[(i>>8)&15] + "_" + w[(i>>12)&15] + "_" + w[(i>>16)&15]
	}
	return fmt.Sprintf("$v%06d", i)
}

func judgeManyNames(c NamesCase) *eng.Fail {
	r := formula.NewRunner()
	for i := c.From; i < c.To; i++ {
		name := c08Name(c.Style, i)
		src := name + " + 1"
		p := safeParse([]byte(src))
		if p.panicked || p.err != nil {
			return eng.F("C08/many-names", "%s: %v %s", src, p.err, p.panicMsg)
		}
		r.SetThis(map[string]interface{}{name: float64(i)})
		o := safeResolve(r, bg, p.src.Expression)
		if got, ok := o.val.(float64); o.panicked || o.err != nil || !ok || got != float64(i)+1 {
			return eng.F("C08/many-names", "%s with %s = %d evaluates to %s (%v %s) after %d other names of the same length were parsed in this process; alone it is %d", src, name, i, show(o.val), o.err, o.panicMsg, i-c.From, i+1)
		}
		if fs, err := formula.ResolveReferenceFields(p.src); err != nil || len(fs) != 1 || fs[0] != name {
			return eng.F("C08/many-names", "%s: fields %v (%v) after %d other names of the same length were parsed in this process", src, fs, err, i-c.From)
		}
	}
	outcome("many-names")
	return nil
}

func tail200(s string) string {
	if len(s) > 600 {
		return s[:600] + "..."
	}
	return s
}

func runC08(w *eng.W) {
	W = w
	var ops [][2]int
	for i, e := range c08Pool {
		ops = append(ops, [2]int{i, 0})
		if e.data != nil {
			ops = append(ops, [2]int{i, 1}, [2]int{i, 2})
		}
	}
	w.Text("pool", fmt.Sprintf("%d entries, %d operations", len(c08Pool), len(ops)))
	emit := func(leg string, h [][2]int) {
		w.State(1)
		w.Trans(int64(len(h)))
		w.Trace(1)
		w.Note("leg:"+leg, 1)
		c := PureCase{Ops: append([][2]int(nil), h...)}
		w.Sample(leg, c)
		c08Hist.Do(w, c)
	}
	if w.First() {
		w.State(1)
		w.Trans(20)
		w.Trace(1)
		w.Note("leg:refusal-then-reuse", 1)
		c08Refusal.Do(w, PureCase{})
	}
	// hundreds of thousands of distinct names of one length in one process (a table of names keyed by
	// anything shorter than the name itself has met two names under one key by then)
	for style := 0; style < 3; style++ {
		n := 400000
		if style == 2 {
			n = 100000
		}
		if w.Take() {
			c := NamesCase{From: 0, To: n, Style: style}
			w.State(int64(n))
			w.Trans(int64(3 * n))
			w.Trace(1)
			w.Note("leg:many-names", 1)
			w.Sample("many-names", c)
			c08Names.Do(w, c)
		}
	}
	// every ordered pair
	for _, a := range ops {
		if !w.Take() {
			continue
		}
		for _, b := range ops {
			emit("pairs", [][2]int{a, b})
		}
		emit("repeat", [][2]int{a, a, a})
		// the same operation two dozen times: an answer that depends on chance (map iteration order,
		// pooled objects, addresses) shows up reproducibly
		if a[1] != 0 {
			var h [][2]int
			for i := 0; i < 24; i++ {
				h = append(h, a)
			}
			emit("determinism", h)
		}
	}
	// triples / quadruples over sub-pools chosen to mix node kinds, builtins and failures
	pick := func(n int) [][2]int {
		var sub [][2]int
		step := len(c08Pool) / n
		for i := 0; i < n; i++ {
			e := i * step
			sub = append(sub, [2]int{e, 0})
			if c08Pool[e].data != nil {
				sub = append(sub, [2]int{e, 1}, [2]int{e, 2})
			}
		}
		return sub
	}
	tri := pick(16)
	if w.Quick() {
		tri = pick(10)
	}
	seqsSharded(w, len(tri), 3, func(idx []int) {
		emit("triples", [][2]int{tri[idx[0]], tri[idx[1]], tri[idx[2]]})
	})
	if !w.Quick() {
		quad := pick(8)
		seqsSharded(w, len(quad), 4, func(idx []int) {
			emit("quadruples", [][2]int{quad[idx[0]], quad[idx[1]], quad[idx[2]], quad[idx[3]]})
		})
	}
}
