//go:build !instr

package checks

func stepsAvailable() bool { return false }
func resetSteps()          {}
func steps() int64         { return 0 }
func stepBudgetHit() bool  { return false }

func setYieldHook(f func(string)) bool { return false }
func globalsDump() string              { return "" }
func disableStepHook()                 {}
func setBlockHook(f func())            {}
func resetPools() {}
