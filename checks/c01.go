package checks

import (
	"runtime"
	"strings"

	formula "github.com/aundis/formula"

	"verif/internal/eng"
	"verif/internal/ref"
)

var c01Src *eng.Kind[SrcCase]
var c01Gen *eng.Kind[GenCase]

// GenCase names one member of the pathological family (the text itself can be 64 KiB).
type GenCase struct {
	Gen  string `json:"generator"`
	Size int    `json:"size"`
}

func init() {
	c := eng.Register(&eng.Check{
		ID:    "C01",
		Title: "Parsing is total",
		Rule: "every token sequence up to k lexemes over the full and the class alphabet, every byte string up to n bytes over 21 raw bytes (invalid UTF-8, open literals, stray bytes), and a fixed family of pathological generators at every size 1..64 and 2^k-1,2^k,2^k+1 up to 64 KiB; each is one call of ParseSourceCode judged for: no panic, error xor complete tree, input consumed; " +
			"under the instrumented build additionally the deterministic step count (function entries + loop iterations) must stay below 2000*len+20000, and for inputs of 4 KiB and more the allocation volume must stay below 4000*len + 4 MiB; distinct = distinct outcome classes (error text class or canonical tree)",
		TrustedBase: []string{"checks/common.go implTree (completeness walk over the exported node types)", "cmd/vinstr (step instrumentation, overlay build)"},
		Assumptions: []string{"'time proportional to length' is judged on instrumented step counts, not on wall-clock time; cost inside library calls is not counted"},
		Run:         runC01,
	})
	c01Src = eng.NewKind(c, "src", func(c SrcCase) *eng.Fail { return judgeC01(c.Src) })
	c01Gen = eng.NewKind(c, "gen", func(c GenCase) *eng.Fail {
		g := pathGens[c.Gen]
		if g == nil {
			return eng.F("harness/unknown-generator", "unknown generator %q", c.Gen)
		}
		return judgeC01([]byte(g(c.Size)))
	})
}

// isTrivia reports whether b consists of white space and line breaks only.
func isTrivia(b []byte) bool {
	for _, t := range ref.Lex(b) {
		if t.K != ref.TEOF {
			return false
		}
	}
	return true
}

func judgeC01(src []byte) *eng.Fail {
	resetSteps()
	big := len(src) >= 4096
	var m0, m1 runtime.MemStats
	if big {
		runtime.ReadMemStats(&m0)
	}
	o := safeParse(src)
	st := steps()
	if len(src) <= 64 {
		// the same text in a slice without spare capacity (what []byte(str) of a caller usually is): reading
		// past the end of the text would then be a fault and not a silent success
		exact := make([]byte, len(src))
		copy(exact, src)
		if o2 := safeParse(exact[:len(src):len(src)]); o2.panicked {
			return eng.F("C01/panic", "ParseSourceCode panicked on a slice with len == cap: %s", o2.panicMsg)
		} else if (o2.err == nil) != (o.err == nil) {
			return eng.F("C01/capacity-dependent", "the verdict depends on the spare capacity of the byte slice: %v with spare capacity, %v without", o.err, o2.err)
		}
	}
	if big {
		// work hidden from the step counter (copying inside library calls) still shows as
		// allocation volume, which is deterministic: measured <= 130 bytes per input byte
		runtime.ReadMemStats(&m1)
		alloc := int64(m1.TotalAlloc - m0.TotalAlloc)
		noteMax("alloc_bytes_per_input_byte", alloc/int64(len(src)))
		if alloc > 4000*int64(len(src))+(4<<20) {
			return eng.F("C01/superlinear-allocation", "parse of %d bytes allocated %d bytes (> 4000*len + 4 MiB): work is not proportional to the input length", len(src), alloc)
		}
	}
	if stepBudgetHit() {
		return eng.F("C01/step-budget", "parse did not finish within the step budget (%d steps for %d bytes): non-termination", st, len(src))
	}
	if o.panicked {
		return eng.F("C01/panic", "ParseSourceCode panicked: %s", o.panicMsg)
	}
	if stepsAvailable() {
		noteMax("steps_per_byte_x100", st*100/int64(len(src)+1))
		if st > 2000*int64(len(src))+20000 {
			return eng.F("C01/superlinear", "parse of %d bytes took %d steps (> 2000*len+20000)", len(src), st)
		}
	}
	if o.err != nil {
		if o.err.Error() == "" {
			return eng.F("C01/empty-error", "error with empty message")
		}
		if len(src) <= 64 {
			outcome("err")
		}
		return nil
	}
	if o.src == nil {
		return eng.F("C01/nil-nil", "neither a tree nor an error")
	}
	if len(o.src.Diagnostics) > 0 {
		return eng.F("C01/diagnostics-without-error", "no error although %d diagnostics were produced", len(o.src.Diagnostics))
	}
	var problems []string
	t := implTree(o.src.Expression, &problems)
	if len(problems) > 0 {
		return eng.F("C01/incomplete-tree", "tree returned without error is incomplete: %s", strings.Join(problems, "; "))
	}
	if len(src) <= 64 {
		outcome(t.String())
	} else {
		outcome("big-tree")
	}
	e := o.src.Expression
	if e.Pos() < 0 || e.End() > len(src) || e.Pos() > e.End() {
		return eng.F("C01/range", "expression range [%d,%d) outside the text of %d bytes", e.Pos(), e.End(), len(src))
	}
	if !isTrivia(src[e.End():]) {
		return eng.F("C01/input-not-consumed", "accepted although input after offset %d was not consumed: %q", e.End(), tailStr(src[e.End():]))
	}
	if !isTrivia(src[:e.Pos()]) {
		return eng.F("C01/input-not-consumed", "accepted although input before offset %d is not part of the tree", e.Pos())
	}
	if o.src.EndOfFileToken == nil || o.src.EndOfFileToken.Token != formula.SK_EndOfFile || o.src.EndOfFileToken.End() != len(src) {
		return eng.F("C01/no-eof-token", "accepted without an end-of-file token ending at len(text)")
	}
	return nil
}

func tailStr(b []byte) string {
	if len(b) > 40 {
		b = b[:40]
	}
	return string(b)
}

func rep(s string, n int) string { return strings.Repeat(s, n) }

// pathGens is the fixed pathological family.
var pathGens = map[string]func(n int) string{
	"open-parens":        func(n int) string { return rep("(", n) },
	"nested-parens":      func(n int) string { return rep("(", n) + "a" + rep(")", n) },
	"open-brackets":      func(n int) string { return rep("[", n) },
	"nested-brackets":    func(n int) string { return rep("[", n) + rep("]", n) },
	"open-calls":         func(n int) string { return rep("a(", n) },
	"nested-calls":       func(n int) string { return rep("a(", n) + rep(")", n) },
	"minus-chain":        func(n int) string { return rep("-", n) + "1" },
	"bang-chain":         func(n int) string { return rep("!", n) + "a" },
	"bangbang-chain":     func(n int) string { return rep("!!", n) + "a" },
	"plus-chain":         func(n int) string { return rep("1+", n) + "1" },
	"plus-chain-open":    func(n int) string { return rep("1+", n) },
	"star-plus-chain":    func(n int) string { return rep("1*2+", n) + "1" },
	"ternary-chain":      func(n int) string { return rep("a?", n) + "a" + rep(":a", n) },
	"ternary-open":       func(n int) string { return rep("a?", n) },
	"ternary-right":      func(n int) string { return rep("a?b:", n) + "c" },
	"assign-chain":       func(n int) string { return rep("$a=", n) + "1" },
	"dot-chain":          func(n int) string { return rep("a.", n) + "a" },
	"dot-chain-open":     func(n int) string { return rep("a.", n) },
	"call-chain":         func(n int) string { return "a" + rep("()", n) },
	"open-string":        func(n int) string { return "'" + rep("x", n) },
	"long-string":        func(n int) string { return "'" + rep("x", n) + "'" },
	"backslash-string":   func(n int) string { return rep("'\\", n) },
	"escape-string":      func(n int) string { return "'" + rep("\\n", n) + "'" },
	"hex-run":            func(n int) string { return rep("0xFF", n) },
	"separator-run":      func(n int) string { return rep("1_", n) },
	"separators-only":    func(n int) string { return "1" + rep("_", n) },
	"separated-digits":   func(n int) string { return rep("1_", n) + "1" },
	"newlines":           func(n int) string { return rep("\n", n) },
	"digits":             func(n int) string { return rep("9", n) },
	"fraction-digits":    func(n int) string { return "0." + rep("3", n) },
	"typeof-chain":       func(n int) string { return rep("typeof ", n) + "a" },
	"array-open-list":    func(n int) string { return rep("[1,", n) },
	"array-junk":         func(n int) string { return rep("[) ", n) },
	"coalesce-chain":     func(n int) string { return rep("a??", n) + "a" },
	"invalid-bytes":      func(n int) string { return rep("\xff", n) },
	"hash-run":           func(n int) string { return rep("#", n) },
	"comma-chain":        func(n int) string { return rep("a,", n) + "a" },
	"slash-run":          func(n int) string { return rep("/", n) },
	"long-identifier":    func(n int) string { return rep("a", n) },
	"unicode-identifier": func(n int) string { return rep("中", n) },
	"wide-array":         func(n int) string { return "[" + rep("a,", n) + "a]" },
	"wide-call":          func(n int) string { return "f(" + rep("a,", n) + "a)" },
	"missing-commas":     func(n int) string { return "[" + rep("a ", n) + "]" },
	"nbsp-run":           func(n int) string { return rep(" ", n) + "a" },
	"crlf-run":           func(n int) string { return "a" + rep("\r\n", n) + "+" },
	"lone-continuation":  func(n int) string { return rep("\x85", n) },
	"nul-after-formula":  func(n int) string { return "a + b" + rep("\x00", n) + " ) ) ] 'open" },
	"nul-run":            func(n int) string { return rep("\x00", n) },
	// evaluation-side shapes: work that must stay proportional to the size of the formula
	"nested-spread":      func(n int) string { return rep("max([", n) + "1" + rep("]...)", n) },
	"assert-chain":       func(n int) string { return "dm" + rep("!.k", n) },
	"assert-call-chain":  func(n int) string { return rep("idm(", n) + "dm" + rep(")!.k", n) },
	"nested-conditional": func(n int) string { return rep("(a ? ", n) + "1" + rep(" : 2)", n) },
	"nested-coalesce":    func(n int) string { return rep("(n ?? ", n) + "1" + rep(")", n) },
	"nested-assign-read": func(n int) string { return rep("($l = ", n) + "1" + rep(" + ($l ?? 0))", n) },
}

func pathSizes() []int {
	var s []int
	for i := 1; i <= 64; i++ {
		s = append(s, i)
	}
	for k := 7; k <= 16; k++ {
		s = append(s, 1<<k-1, 1<<k, 1<<k+1)
	}
	return s
}

func sortedGenNames() []string {
	var names []string
	for k := range pathGens {
		names = append(names, k)
	}
	// insertion sort keeps this file free of extra imports
	for i := 1; i < len(names); i++ {
		for j := i; j > 0 && names[j] < names[j-1]; j-- {
			names[j], names[j-1] = names[j-1], names[j]
		}
	}
	return names
}

// pathological runs f on every (generator, size) whose text is at most 64 KiB.
func pathological(w *eng.W, f func(GenCase, string)) {
	for _, name := range sortedGenNames() {
		for _, n := range pathSizes() {
			if !w.Take() {
				continue
			}
			s := pathGens[name](n)
			if len(s) > 65536 {
				continue
			}
			f(GenCase{name, n}, s)
		}
	}
}

func runC01(w *eng.W) {
	W = w
	if stepsAvailable() {
		w.Text("step_counter", "instrumented build: function entries and loop iterations are counted")
	} else {
		w.Text("step_counter", "plain build: step-count oracle not active in this run")
		w.Cap("instrumented build unavailable: step-count oracle skipped")
	}
	do := func(leg string, src []byte) {
		w.State(1)
		w.Trans(1)
		w.Trace(1)
		w.Note("leg:"+leg, 1)
		w.Sample(leg, string(src))
		c01Src.Do(w, SrcCase{Src: append(Bytes(nil), src...)})
	}
	q := w.Quick()
	pick := func(a, b int) int {
		if q {
			return a
		}
		return b
	}
	pathological(w, func(g GenCase, s string) {
		w.State(1)
		w.Trans(1)
		w.Trace(1)
		w.Note("leg:pathological", 1)
		w.NoteMax("max:largest_input_bytes", int64(len(s)))
		w.Sample("pathological", g)
		c01Gen.Do(w, g)
	})
	neighbourTexts(w, "neighbour-code-points", do)
	lookaheadForms(w, "lookahead-forms", do)
	tokenSeqs(w, "full-seq", SigmaFull, pick(3, 4), do)
	listForms(w, "list-forms", do)
	postfixChains(w, "postfix-chains", pick(2, 3), do)
	byteStrings(w, "bytes", pick(4, 6), do)
	byteSequences(w, "byte-sequences", pick(3, 4), do)
	tokenSeqs(w, "class-seq", SigmaClass, pick(4, 5), do)
}
