package checks

import (
	"fmt"
	"reflect"
	"sort"
	"strconv"
	"strings"

	formula "github.com/aundis/formula"

	"verif/internal/eng"
	"verif/internal/ref"
)

// HistCase: a sequence of operation codes applied to one fresh runner.
type HistCase struct {
	Ops   []int    `json:"ops"`
	Names []string `json:"names,omitempty"`
}

var c20Hist *eng.Kind[HistCase]

func init() {
	c := eng.Register(&eng.Check{
		ID:          "C20",
		Title:       "A runner behaves like a plain map of data plus a separate key-value store",
		Rule:        "operation menu of 55 (SetThis with nil / fresh maps / the same map again, SetThisValue, Resolve of formulas that read and assign locals and fields, that fail in three different ways, that read keys beginning with underscores, that re-bind a local to an equal number written differently and read its digits back, that build a list from the data and share it between locals, that bind a local and then fail, SetThis with the map `this` evaluated to earlier, Set, Get); one operation repeated 25 000 (quick) / 120 000 (thorough) times after four prefixes, followed by every read: every history up to depth d is replayed on a fresh real runner in lock-step with a plain-map reference model (no state merging); then breadth-first to depth 5 (quick) / 7 (thorough) with merging on the canonical observed state, where a state reached a second way must answer every probe like the first; after every step all caller-visible maps must equal the model's; distinct = distinct canonical states",
		TrustedBase: []string{"plain-map model of the runner in checks/c20.go"},
		Assumptions: []string{"merging drops caller maps the runner no longer references; leaks into them are covered by the unmerged exploration"},
		Run:         runC20,
	})
	c20Soak = eng.NewKind(c, "soak", judgeSoak)
	c20Hist = eng.NewKind(c, "history", func(c HistCase) *eng.Fail {
		_, f := replayHist(c.Ops, true)
		return f
	})
}

// SoakCase: a prefix, then one operation repeated N times on the same runner, then every read operation.
// (State that accumulates on a runner - counters, buffers, leaked depth - only shows after many steps.)
type SoakCase struct {
	Prefix []int `json:"prefix"`
	Op     int   `json:"op"`
	N      int   `json:"n"`
}

var c20Soak *eng.Kind[SoakCase]

func judgeSoak(c SoakCase) *eng.Fail {
	w := newWorld()
	for _, op := range c.Prefix {
		if f := w.apply(op); f != nil {
			return f
		}
	}
	for i := 0; i < c.N; i++ {
		if f := w.apply(c.Op); f != nil {
			f.Msg = fmt.Sprintf("after %v, repetition %d of %s: %s", opNames(c.Prefix), i+1, c20OpNames[c.Op], f.Msg)
			return f
		}
	}
	for _, op := range []int{9, 10, 14, 15, 16, 20, 21, 23, 25, 28, 32, 35, 37, 51, 11, 13, 10, 14} {
		if f := w.apply(op); f != nil {
			f.Msg = fmt.Sprintf("after %v and %d x %s: %s", opNames(c.Prefix), c.N, c20OpNames[c.Op], f.Msg)
			return f
		}
	}
	outcome(fmt.Sprint("soak ", c.Op))
	return nil
}

var c20OpNames = []string{
	"SetThis(nil)", "SetThis(fresh {})", "SetThis(fresh {x:1})", "SetThis(fresh {x:2,$a:9})", "SetThis(same map as last time)",
	"SetThisValue(x,1)", "SetThisValue(x,2)", "SetThisValue($a,1)", "SetThisValue($a,2)",
	"Resolve(x)", "Resolve($a)", "Resolve($a = x)", "Resolve($a = 2)", "Resolve($b = $a)", "Resolve([$a,$b,x])", "Resolve(this.x)", "Resolve(this)",
	"Set(x,1)", "Set($a,2)", "Set(x,2)", "Get(x)", "Get($a)",
	"Resolve($a = 7 / 3)", "Resolve(($a ?? 1) * 3)", "Resolve($a = 9007199254740993)", "Resolve(($a ?? 0) - 9007199254740992)", "Resolve($a = ($b = 2))",
	"Resolve($a = 2.75)", "Resolve(len(left('abcdef', $a ?? 1)))",
	"Resolve(regexp('a','(')) fails", "Resolve(missing!.a1.a2...a100) fails", "Resolve(x(1)) fails",
	"Resolve(__t)", "SetThisValue(__t,3)", "SetThis(fresh {__t:4,___u:5})", "Resolve([__t, this.___u, ___u, this.__t])",
	"Resolve($e = [])", "Resolve([$e, $a])",
	"SetThisValue(max,6)", "Resolve([this.max, this.x, max(1, 2), Max, True, Len, X])", "Resolve(x ? $a = 5 : null, $a)", "Resolve((x ? null : ($a = 6)), $a)",
	"Resolve([$a === 9, $a === 2, $a === 1, x === 2, x === 1])", "Resolve($a = ($a ?? 0) + 1, ... 40 times ..., $a)",
	"Resolve($a = x ? 5 : 6)",
	"Resolve($a = 1.0, '' + $a)", "Resolve($a = 1, '' + $a)", "Resolve($a = 2.50, toString($a))", "Resolve($a = 2.5, toString($a))",
	"Resolve($e = [x, 2])", "Resolve($f = $e)", "Resolve([$e, $f])",
	"SetThis(the map `this` evaluated to last)", "Resolve($a = 3, regexp('a','(')) fails", "Resolve($a = 5, nope()) fails",
}

var c20Counting = strings.Repeat("$a = ($a ?? 0) + 1, ", 40) + "$a"

var c20DeepChain = func() string {
	s := "missing!.a1"
	for i := 2; i <= 100; i++ {
		s += ".a" + strconv.Itoa(i)
	}
	return s
}()

var c20Formulas = map[int]string{9: "x", 10: "$a", 11: "$a = x", 12: "$a = 2", 13: "$b = $a", 14: "[$a,$b,x]", 15: "this.x", 16: "this",
	22: "$a = 7 / 3", 23: "($a ?? 1) * 3", 24: "$a = 9007199254740993", 25: "($a ?? 0) - 9007199254740992", 26: "$a = ($b = 2)", 27: "$a = 2.75", 28: "len(left('abcdef', $a ?? 1))",
	29: "regexp('a','(')", 30: c20DeepChain, 31: "x(1)", 32: "__t", 35: "[__t, this.___u, ___u, this.__t]", 36: "$e = []", 37: "[$e, $a]",
	39: "[this.max, this.x, max(1, 2), Max, True, Len, X]", 40: "x ? $a = 5 : null, $a", 41: "(x ? null : ($a = 6)), $a",
	42: "[$a === 9, $a === 2, $a === 1, x === 2, x === 1]", 43: c20Counting, 44: "$a = x ? 5 : 6",
	45: "$a = 1.0, '' + $a", 46: "$a = 1, '' + $a", 47: "$a = 2.50, toString($a)", 48: "$a = 2.5, toString($a)", 49: "$e = [x, 2]", 50: "$f = $e", 51: "[$e, $f]", 53: "$a = 3, regexp('a','(')", 54: "$a = 5, nope()"}

// exact values behind the canonical strings of the model (numbers only)
var c20Decs = map[string]ref.Dec{}

func c20Canon(d ref.Dec) string {
	c := "n" + d.Rat().RatString()
	c20Decs[c] = d
	return c
}

func c20Dec(canon string, ifNull string) ref.Dec {
	if canon == "null" {
		d, _ := ref.ParseDec(ifNull)
		return d
	}
	if d, ok := c20Decs[canon]; ok {
		return d
	}
	// small integers created through canonImpl ("n1", "n2", "n9")
	d, _ := ref.ParseDec(strings.TrimPrefix(canon, "n"))
	return d
}

type c20World struct {
	r    *formula.Runner
	maps []map[string]interface{} // caller maps, in creation order
	last int                      // index of the last map passed to SetThis, -1 none
	kept int                      // index of the map `this` last evaluated to, -1 none
	// model
	cur   int // -1 unset, -2 the runner's own map, >=0 caller map index
	own   map[string]string
	mmaps []map[string]string
	aux   map[string]string
}

func newWorld() *c20World {
	return &c20World{r: formula.NewRunner(), last: -1, kept: -1, cur: -1, aux: map[string]string{}}
}

func (w *c20World) curMap() map[string]string {
	switch {
	case w.cur == -1:
		return nil
	case w.cur == -2:
		return w.own
	}
	return w.mmaps[w.cur]
}

func (w *c20World) ensure() map[string]string {
	if w.cur == -1 {
		w.own = map[string]string{}
		w.cur = -2
	}
	return w.curMap()
}

func get(m map[string]string, k string) string {
	if m == nil {
		return "null"
	}
	if v, ok := m[k]; ok {
		return v
	}
	return "null"
}

func canonMap(m map[string]interface{}) string {
	keys := make([]string, 0, len(m))
	for k := range m {
		keys = append(keys, k)
	}
	sort.Strings(keys)
	p := make([]string, len(keys))
	for i, k := range keys {
		p[i] = k + "=" + canonImpl(m[k])
	}
	return strings.Join(p, " ")
}

func canonModel(m map[string]string) string {
	keys := make([]string, 0, len(m))
	for k := range m {
		keys = append(keys, k)
	}
	sort.Strings(keys)
	p := make([]string, len(keys))
	for i, k := range keys {
		p[i] = k + "=" + m[k]
	}
	return strings.Join(p, " ")
}

func (w *c20World) apply(op int) *eng.Fail {
	name := c20OpNames[op]
	fresh := func(content map[string]interface{}) {
		mm := map[string]string{}
		for k, v := range content {
			mm[k] = canonImpl(v)
		}
		w.maps = append(w.maps, content)
		w.mmaps = append(w.mmaps, mm)
		w.last = len(w.maps) - 1
		w.cur = w.last
		w.r.SetThis(content)
	}
	switch {
	case op == 0:
		w.r.SetThis(nil)
		w.cur = -1
	case op == 1:
		fresh(map[string]interface{}{})
	case op == 2:
		fresh(map[string]interface{}{"x": 1.0})
	case op == 3:
		fresh(map[string]interface{}{"x": 2.0, "$a": 9.0})
	case op == 4:
		if w.last < 0 {
			fresh(map[string]interface{}{})
		} else {
			w.r.SetThis(w.maps[w.last])
			w.cur = w.last
		}
	case op >= 5 && op <= 8:
		k := []string{"x", "x", "$a", "$a"}[op-5]
		v := []float64{1, 2, 1, 2}[op-5]
		w.r.SetThisValue(k, v)
		w.ensure()[k] = canonImpl(v)
	case op >= 29 && op <= 31:
		// a failing evaluation (through a recovered panic, an ordinary error, a call of a non-function)
		// reports an error and leaves everything as it was
		p, err := cachedParse(c20Formulas[op])
		if err != nil {
			return eng.F("C20/parse", "%s: %v", name, err)
		}
		o := safeResolve(w.r, bg, p.Expression)
		if o.panicked {
			return eng.F("C20/panic", "%s: %s", name, o.panicMsg)
		}
		if o.err == nil || o.val != nil {
			return eng.F("C20/expected-error", "%s = %s, expected an error", name, show(o.val))
		}
	case op == 52:
		// the host kept what `this` evaluated to and hands it back
		if w.kept < 0 {
			fresh(map[string]interface{}{})
		} else {
			w.r.SetThis(w.maps[w.kept])
			w.cur, w.last = w.kept, w.kept
		}
	case op == 53, op == 54:
		// the binding happens, then the evaluation fails (an ordinary error, a recovered panic): the error is
		// reported and the local stays bound
		p, err := cachedParse(c20Formulas[op])
		if err != nil {
			return eng.F("C20/parse", "%s: %v", name, err)
		}
		o := safeResolve(w.r, bg, p.Expression)
		if o.panicked {
			return eng.F("C20/panic", "%s: %s", name, o.panicMsg)
		}
		if o.err == nil || o.val != nil {
			return eng.F("C20/expected-error", "%s = %s, expected an error", name, show(o.val))
		}
		w.ensure()["$a"] = map[int]string{53: "n3", 54: "n5"}[op]
	case op == 33:
		w.r.SetThisValue("__t", 3.0)
		w.ensure()["__t"] = canonImpl(3.0)
	case op == 34:
		fresh(map[string]interface{}{"__t": 4.0, "___u": 5.0})
	case op == 38:
		// a data entry spelled like a builtin: `this.max` is that entry, `max(...)` the builtin
		w.r.SetThisValue("max", 6.0)
		w.ensure()["max"] = canonImpl(6.0)
	case op >= 9 && op <= 16, op >= 22 && op <= 28, op == 32, op == 35, op == 36, op == 37, op >= 39 && op <= 51:
		src := c20Formulas[op]
		p, err := cachedParse(src)
		if err != nil {
			return eng.F("C20/parse", "%s: %v", src, err)
		}
		o := safeResolve(w.r, bg, p.Expression)
		if o.panicked {
			return eng.F("C20/panic", "%s: %s", name, o.panicMsg)
		}
		if o.err != nil {
			return eng.F("C20/unexpected-error", "%s: %v", name, o.err)
		}
		m := w.curMap()
		var want string
		switch op {
		case 9, 15:
			want = get(m, "x")
		case 10:
			want = get(m, "$a")
		case 11:
			want = get(m, "x")
			w.ensure()["$a"] = want
		case 12:
			want = "n2"
			w.ensure()["$a"] = want
		case 13:
			want = get(m, "$a")
			w.ensure()["$b"] = want
		case 14:
			want = "[" + get(m, "$a") + "," + get(m, "$b") + "," + get(m, "x") + "]"
		case 16:
			// identity of the data map
			got, _ := o.val.(map[string]interface{})
			switch {
			case w.cur == -1:
				if got != nil {
					return eng.F("C20/this", "%s: no data map is set, but `this` is a non-nil map {%s}", name, canonMap(got))
				}
			case w.cur == -2:
				if got == nil {
					return eng.F("C20/this", "%s: the runner owns a map, but `this` is nil", name)
				}
				for i, cm := range w.maps {
					if reflect.ValueOf(cm).Pointer() == reflect.ValueOf(got).Pointer() {
						return eng.F("C20/this", "%s: `this` aliases caller map #%d which was replaced", name, i)
					}
				}
				if canonMap(got) != canonModel(w.own) {
					return eng.F("C20/this", "%s: `this` is {%s}, model {%s}", name, canonMap(got), canonModel(w.own))
				}
				// the host has seen the runner's own map now: from here on it is a caller-visible map like
				// the others (it must keep equal to its model whatever happens to the runner later)
				w.maps = append(w.maps, got)
				w.mmaps = append(w.mmaps, w.own)
				w.cur = len(w.maps) - 1
				w.kept = w.cur
			default:
				if got == nil || reflect.ValueOf(got).Pointer() != reflect.ValueOf(w.maps[w.cur]).Pointer() {
					return eng.F("C20/this", "%s: `this` is not the caller's current map #%d", name, w.cur)
				}
				w.kept = w.cur
			}
			want = ""
		case 22:
			seven, _ := ref.ParseDec("7")
			three, _ := ref.ParseDec("3")
			want = c20Canon(ref.Quo(seven, three, 34))
			w.ensure()["$a"] = want
		case 23:
			three, _ := ref.ParseDec("3")
			want = c20Canon(ref.Mul(c20Dec(get(m, "$a"), "1"), three).RoundHE(34))
		case 24:
			big, _ := ref.ParseDec("9007199254740993")
			want = c20Canon(big)
			w.ensure()["$a"] = want
		case 25:
			sub, _ := ref.ParseDec("9007199254740992")
			want = c20Canon(ref.Sub(c20Dec(get(m, "$a"), "0"), sub).RoundHE(34))
		case 27:
			v, _ := ref.ParseDec("2.75")
			want = c20Canon(v)
			w.ensure()["$a"] = want
		case 28:
			// an int parameter receives the local truncated toward zero; the local itself stays as it is
			n := ratTrunc(c20Dec(get(m, "$a"), "1").Rat())
			k := int64(6)
			if n.IsInt64() && n.Int64() < 6 {
				k = n.Int64()
			}
			want = c20Canon(ref.FromInt64(k))
		case 45, 46, 47, 48:
			// a binding keeps the number as it was written (its digits, not only its value): what the
			// local held before does not matter
			text := map[int]string{45: "1.0", 46: "1", 47: "2.50", 48: "2.5"}[op]
			if got, _ := o.val.(string); got != text {
				return eng.F("C20/resolve", "%s = %s, model says %q (the local was %s before)", name, show(o.val), text, get(m, "$a"))
			}
			d, _ := ref.ParseDec(text)
			w.ensure()["$a"] = c20Canon(d)
			want = canonImpl(o.val)
		case 49:
			want = "[" + get(m, "x") + ",n2]"
			w.ensure()["$e"] = want
		case 50:
			want = get(m, "$e")
			w.ensure()["$f"] = want
		case 51:
			want = "[" + get(m, "$e") + "," + get(m, "$f") + "]"
		case 36:
			want = "[]"
			w.ensure()["$e"] = want
		case 37:
			want = "[" + get(m, "$e") + "," + get(m, "$a") + "]"
		case 32:
			want = get(m, "__t")
		case 35:
			want = "[" + get(m, "__t") + "," + get(m, "___u") + "," + get(m, "___u") + "," + get(m, "__t") + "]"
		case 39:
			// (names that differ from a builtin, a keyword or a data key only in case are other names: not set here)
			want = "[" + get(m, "max") + "," + get(m, "x") + ",n2,null,null,null,null]"
		case 40:
			// a statement-like conditional left of a comma: its branch runs, the other does not
			if get(m, "x") != "null" {
				w.ensure()["$a"] = "n5"
			}
			want = get(w.curMap(), "$a")
		case 41:
			if get(m, "x") == "null" {
				w.ensure()["$a"] = "n6"
			}
			want = get(w.curMap(), "$a")
		case 42:
			// entries the caller supplied under $-names and under plain names are numbers like any other
			bs := func(b bool) string {
				if b {
					return "true"
				}
				return "false"
			}
			eq := func(k, lit string) string {
				v := get(m, k)
				if !strings.HasPrefix(v, "n") {
					return "false"
				}
				d, _ := ref.ParseDec(lit)
				return bs(c20Dec(v, "0").Cmp(d) == 0)
			}
			if exp, got := "["+eq("$a", "9")+" "+eq("$a", "2")+" "+eq("$a", "1")+" "+eq("x", "2")+" "+eq("x", "1")+"]", fmt.Sprint(o.val); got != exp {
				return eng.F("C20/resolve", "%s = %s, model says %s ($a is %s, x is %s)", name, got, exp, get(m, "$a"), get(m, "x"))
			}
			want = canonImpl(o.val)
		case 44:
			// the value of the assignment is the whole conditional
			want = "n6"
			if get(m, "x") != "null" {
				want = "n5"
			}
			w.ensure()["$a"] = want
		case 43:
			// forty statements in one sequence, each evaluated once, in order
			if v := get(m, "$a"); v != "null" && !strings.HasPrefix(v, "n") {
				return nil // (an array in $a: + is not arithmetic then; not this operation's business)
			}
			forty, _ := ref.ParseDec("40")
			want = c20Canon(ref.Add(c20Dec(get(m, "$a"), "0"), forty).RoundHE(34))
			w.ensure()["$a"] = want
		case 26:
			want = "n2"
			mm := w.ensure()
			mm["$b"] = want
			mm["$a"] = want
		}
		if gf, isF := o.val.(float64); isF && op != 16 && strings.HasPrefix(want, "n") {
			// Resolve hands a top-level number back as float64: compare with the float64 nearest to the exact model value
			wd := c20Dec(want, "0")
			wf, _ := strconv.ParseFloat(wd.Plain(), 64)
			if gf != wf {
				return eng.F("C20/resolve", "%s = %s, model says %v (exactly %s)", name, show(o.val), wf, wd.Plain())
			}
		} else if op != 16 {
			if got := canonImpl(o.val); got != want {
				return eng.F("C20/resolve", "%s = %s, model says %s", name, got, want)
			}
		}
	case op == 17:
		w.r.Set("x", 1.0)
		w.aux["x"] = "n1"
	case op == 18:
		w.r.Set("$a", 2.0)
		w.aux["$a"] = "n2"
	case op == 19:
		w.r.Set("x", 2.0)
		w.aux["x"] = "n2"
	case op == 20, op == 21:
		k := []string{"x", "$a"}[op-20]
		got := canonImpl(w.r.Get(k))
		want := "null"
		if v, ok := w.aux[k]; ok {
			want = v
		}
		if got != want {
			return eng.F("C20/get", "%s = %s, model says %s", name, got, want)
		}
	}
	// every caller-visible map equals its model
	for i, cm := range w.maps {
		if canonMap(cm) != canonModel(w.mmaps[i]) {
			return eng.F("C20/caller-map", "after %s: caller map #%d is {%s}, model {%s}", name, i, canonMap(cm), canonModel(w.mmaps[i]))
		}
	}
	return nil
}

// probes are read-only questions; their answers characterise the observable state.
func (w *c20World) probes() (string, *eng.Fail) {
	var out []string
	for _, op := range []int{14, 15, 16, 20, 21} {
		if f := w.apply(op); f != nil {
			f.Msg = "probe: " + f.Msg
			return "", f
		}
	}
	p, _ := cachedParse("[x, $a, $b]")
	o := safeResolve(w.r, bg, p.Expression)
	out = append(out, canonImpl(o.val), canonImpl(w.r.Get("x")), canonImpl(w.r.Get("$a")))
	return strings.Join(out, " | "), nil
}

// key is the canonical model state used for merging.
func (w *c20World) key() string {
	cur := "unset"
	switch {
	case w.cur == -2:
		cur = "own{" + canonModel(w.own) + "}"
	case w.cur >= 0:
		cur = "caller{" + canonModel(w.mmaps[w.cur]) + "}"
	}
	last := "none"
	if w.last >= 0 {
		last = "{" + canonModel(w.mmaps[w.last]) + "}"
		if w.last == w.cur {
			last = "=cur"
		}
	}
	kept := "none"
	if w.kept >= 0 {
		kept = "{" + canonModel(w.mmaps[w.kept]) + "}"
		if w.kept == w.cur {
			kept = "=cur"
		} else if w.kept == w.last {
			kept = "=last"
		}
	}
	return cur + " last" + last + " kept" + kept + " aux{" + canonModel(w.aux) + "}"
}

func replayHist(ops []int, probe bool) (*c20World, *eng.Fail) {
	w := newWorld()
	for i, op := range ops {
		if op < 0 || op >= len(c20OpNames) {
			return w, eng.F("harness/op", "bad op %d", op)
		}
		if f := w.apply(op); f != nil {
			f.Msg = fmt.Sprintf("step %d of %v: %s", i+1, opNames(ops), f.Msg)
			return w, f
		}
	}
	if probe {
		if _, f := w.probes(); f != nil {
			f.Msg = fmt.Sprintf("after %v: %s", opNames(ops), f.Msg)
			return w, f
		}
	}
	return w, nil
}

func opNames(ops []int) []string {
	n := make([]string, len(ops))
	for i, o := range ops {
		n[i] = c20OpNames[o]
	}
	return n
}

func runC20(w *eng.W) {
	W = w
	nops := len(c20OpNames)
	depth := 3
	if !w.Quick() {
		depth = 4
	}
	for l := 0; l <= depth; l++ {
		seqsSharded(w, nops, l, func(idx []int) {
			ops := append([]int(nil), idx...)
			w.State(1)
			w.Trans(int64(len(ops)))
			w.Trace(1)
			w.Note("unmerged_histories", 1)
			c := HistCase{Ops: ops, Names: opNames(ops)}
			w.Sample("history", c)
			if c20Hist.Do(w, HistCase{Ops: ops}) {
				wd, _ := replayHist(ops, false)
				outcome(wd.key())
			}
		})
	}
	// long histories: one operation repeated many times on one runner
	reps := 25000
	if !w.Quick() {
		reps = 120000
	}
	for _, prefix := range [][]int{{}, {2, 12}, {34, 33}, {0, 7}} {
		for op := 0; op < nops; op++ {
			if !w.Take() {
				continue
			}
			n := reps
			if op < 29 || op > 31 {
				n = reps / 10 // operations that succeed: shorter runs
			}
			w.State(1)
			w.Trans(int64(n))
			w.Trace(1)
			w.Note("leg:soak", 1)
			c := SoakCase{Prefix: prefix, Op: op, N: n}
			w.Sample("soak", c)
			c20Soak.Do(w, c)
		}
	}
	if !w.First() {
		return
	}
	// merged breadth-first search to depth 7
	type node struct {
		ops    []int
		probes string
	}
	seen := map[string]node{}
	frontier := [][]int{{}}
	w0, _ := replayHist(nil, false)
	p0, _ := w0.probes()
	seen[w0.key()] = node{nil, p0}
	maxDepth := 7
	if w.Quick() {
		maxDepth = 5
	}
	for d := 1; d <= maxDepth && len(frontier) > 0; d++ {
		var next [][]int
		cut := false
		for _, h := range frontier {
			if w.Expired() {
				cut = true
				break
			}
			for op := 0; op < nops; op++ {
				ops := append(append([]int(nil), h...), op)
				w.Trans(1)
				w.Note("merged_transitions", 1)
				if !c20Hist.Do(w, HistCase{Ops: ops}) {
					continue
				}
				wd, _ := replayHist(ops, false)
				k := wd.key()
				pr, _ := wd.probes()
				if prev, ok := seen[k]; ok {
					if prev.probes != pr {
						w.FailRaw("history", HistCase{Ops: ops, Names: opNames(ops)}, eng.F("C20/differential", "the same canonical state answers probes differently: via %v -> %s ; via %v -> %s", opNames(prev.ops), prev.probes, opNames(ops), pr))
					}
					continue
				}
				seen[k] = node{ops, pr}
				w.State(1)
				w.Note("merged_states", 1)
				outcome(k)
				next = append(next, ops)
			}
		}
		if cut {
			w.Cap(fmt.Sprintf("merged search stopped inside depth %d (depth %d complete)", d, d-1))
			break
		}
		frontier = next
		w.NoteMax("max:merged_depth_completed", int64(d))
		if w.Expired() {
			w.Cap(fmt.Sprintf("merged search stopped at depth %d", d))
			break
		}
	}
}
