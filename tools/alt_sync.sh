#!/bin/bash
# tools/alt_sync.sh [dir]  (default /tmp/ev)
# Mirrors /verif to <dir>/verif with go.mod pointing at the scratch worktree <dir>/repo, so that
# changes can be applied and checked without touching /repo or /verif/evidence.
set -e
D="${1:-/tmp/ev}"
mkdir -p "$D"
[ -d "$D/repo" ] || git -C /repo worktree add -q --detach "$D/repo" HEAD
# VERIF_NOSYNC=1: keep the mirror as it is (a long run started from one state of /verif is not disturbed by later edits)
if [ -n "${VERIF_NOSYNC:-}" ] && [ -d "$D/verif" ]; then exit 0; fi
git -C "$D/repo" checkout -q --detach "$(git -C /repo rev-parse HEAD)"
rsync -a --delete --exclude .git --exclude bin --exclude violations --exclude evidence /verif/ "$D/verif/"
mkdir -p "$D/verif/evidence"
sed -i "s#=> /repo#=> $D/repo#" "$D/verif/go.mod"
