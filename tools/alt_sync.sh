#!/bin/bash
# Mirrors /verif to /tmp/ev/verif with go.mod pointing at the scratch worktree /tmp/ev/repo, so that
# seeded changes can be applied and checked without touching /repo or /verif/evidence.
set -e
mkdir -p /tmp/ev
[ -d /tmp/ev/repo ] || git -C /repo worktree add -q --detach /tmp/ev/repo HEAD
git -C /tmp/ev/repo checkout -q --detach "$(git -C /repo rev-parse HEAD)"
rsync -a --delete --exclude .git --exclude bin --exclude violations --exclude evidence /verif/ /tmp/ev/verif/
mkdir -p /tmp/ev/verif/evidence
sed -i 's#=> /repo#=> /tmp/ev/repo#' /tmp/ev/verif/go.mod
