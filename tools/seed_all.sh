#!/bin/bash
# Runs every stored seeded change against its own property's quick check (plus any extra
# checks given as arguments) and writes seeded/RESULTS.md.
cd "$(dirname "$0")/.."
for d in seeded/C*-*; do
  s="$(basename "$d")"; p="${s%%-*}"
  tools/seed_run.sh "$s" "$p" "$@"
done
python3 - <<'PY'
import json,glob,os
rows=[]
for m in sorted(glob.glob('seeded/C*-*/meta.json')):
    j=json.load(open(m)); name=os.path.basename(os.path.dirname(m))
    qc=j.get('quick_checks',{})
    first=(j.get('needs_to_manifest') or '').strip().split('\n')[0][:110]
    rows.append((name,j.get('confirmation',{}).get('confirmed'),' '.join('%s=%s'%kv for kv in sorted(qc.items())),first))
with open('seeded/RESULTS.md','w') as f:
    f.write('# Seeded changes (written by independent sub-agents from the property text only) and what detects them\n\n| seed | confirmed | quick checks | note |\n|---|---|---|---|\n')
    for r in rows: f.write('| %s | %s | %s | %s |\n'%r)
det=sum(1 for r in rows if (r[0].split('-')[0]+'=detected') in r[2])
print('seeds:',len(rows),'detected by own property check:',det)
PY
