#!/usr/bin/env python3
"""Regenerates the table of DESIGN.md section 8.7 from the log of a thorough run (vp run ... ./run.sh Cxx thorough)."""
import re,sys
log=open(sys.argv[1]).read()
notes={'C01':'token sequences k<=4 (full) / k<=5 (class), bytes n<=6','C02':'class alphabet k<=6, full alphabet k<=4, all families','C03':'token sequences k<=5 over the evaluation alphabet, all value legs',
'C04':'full 880-operand grid x 5 operators, chains, far exponents','C05':'same grid as quick (one process)','C06':'same spaces as quick','C07':'programs up to 6 nodes, histories','C08':'pairs, triples over 16 entries, quadruples over 8',
'C09':'bound 3 for evaluate/analyse pairs, 2 otherwise; reports the bound completed per scenario; leg B time-limited','C10':'up to 5 nodes, token sequences k<=5','C11':'up to two fixed parameters over 21 kinds, n+2 arguments (four arguments: over the first eight argument kinds)',
'C12':'n<=8','C13':'all escape-form combinations for 3 atoms','C14':'bytes n<=6, full lexeme alphabet','C15':'break joiners over 3 tokens, helpers over 7 atoms, byte sequences of 4','C16':'depth 4',
'C17':'strings up to 4 symbols','C18':'full grid','C19':'every year 1590-2410 plus every 25th year 1-9999, six zones','C20':'unmerged depth 4 over 55 operations complete (9.3 M histories); this run had a 20-minute budget, which cut the merged search (the tier allows 60)'}
rows=['| id | evaluations | states | wall | exhaustive | note |','|---|---|---|---|---|---|']
for m in re.finditer(r'^(C\d\d) thorough: evaluations=(\d+) states=(\d+) .*?exhaustive=(\w+) failures=(\d+) known=(\d+) wall=([\d.]+)s',log,re.M):
    c,ev,st,ex,fa,kn,wall=m.groups()
    fmt=lambda n: ('%.1f M'%(int(n)/1e6)) if int(n)>=1e6 else n
    rows.append('| %s | %s | %s | %.0f s | %s | %s |'%(c,fmt(ev),fmt(st),float(wall),'yes' if ex=='true' else '**no** (deadline)',notes.get(c,'')))
d=open('/verif/DESIGN.md').read()
d=re.sub(r'\| id \| evaluations \|( states \|)? wall \| exhaustive \| note \|\n\|---\|---\|(---\|)?---\|---\|---\|\n(\|.*\n)+', lambda m,t='\n'.join(rows)+'\n': t, d, count=1)
open('/verif/DESIGN.md','w').write(d)
print(len(rows)-2,'rows')
