#!/bin/bash
# For every "fix:" commit in /repo: revert it in the working tree (never committed), confirm
# that the repository's own tests still pass (the defect was invisible to them), run the
# quick check(s) that should notice, expect exit 1 with a VIOLATION line, then restore /repo.
# usage: tools/revert_selftest.sh [commit-prefix ...]
set -u
cd "$(dirname "$0")/.."
export GOFLAGS=-mod=mod GOPROXY=off GOSUMDB=off GOTOOLCHAIN=local
MAP="
ee065f4:C02
73c8b41:C02
1046ee8:C02
4eb59d7:C12,C02,C14
12b19a6:C02,C12,C14
01a5b3a:C15
1e71232:C03
f71b223:C04
fabf450:C06
fa6515c:C13
9e0b66c:C16
f149e2e:C17
4412a0c:C17
593f13e:C19
ebca082:C11
1c7ddb0:C11
c71c10d:C11
d8b1973:C03
6c9bd9d:C16
6d4d59c:C18
e4dd127+b46c565:C18
b2d86c5:C11
f66a656:C15
09c7560:C15
e4dd127:C12,C03
b3305a6:C04,C05
08bbdb4:C05,C06
24c2f53:C05
26b3e7e:C11
f741aba:C11
63af0f8:C11
9944225:C08
83acbbb:C04
95e93be:C08
f0e8e48+eae3b07:C11
e2a2e4c:C11
27f3a2f:C03
da05acb:C06
f907567:C03
3fbece2:C06,C05,C18
f0e8e48:C09
a354001:C03
@5f18c17:C03
@b475a6a:C03
@c771c24:C03
@a9cca78:C03
@8f453e5:C08
"
# Fixes whose lines were rewritten by later fixes can no longer be reverted on HEAD; for them
# tools/revert_hist.sh compares /repo's tree at the commit with the tree at its parent (see there).
HIST="9cbccb0:C11 4ab7118:C04 5ed6555:C04 554f99c:C18 1a12fdf:C18 cc1a74c:C18 879059a:C18 4f1e3aa:C18 71b549e:C11 da90b3f:C11 6a27050:C18 01c9b75:C11 3e38392:C11 9a95cc4:C18"
if [ "${1:-}" = "--hist" ]; then shift; : > selftest/revert_hist_report.txt; exec tools/revert_hist.sh ${*:-$HIST}; fi
if [ -n "$(git -C /repo status --porcelain)" ]; then echo "/repo is not clean"; exit 2; fi
mkdir -p selftest
OUT=selftest/revert_report.txt
: > "$OUT"
fail=0
for line in $MAP; do
  c="${line%%:*}"; checks="${line#*:}"
  # "x+y+z": z can only be reverted after the later commits x, y (which rewrote the same lines) are
  # reverted too; the check must be silent with only x, y reverted, so that the alarm is z's.
  # "@c": the later commits build on c's code; selftest/patches/c.diff takes c's repair out by hand.
  pre=""; patch=""
  case "$c" in @*) c="${c#@}"; patch="selftest/patches/$c.diff";; *+*) pre="${c%+*}"; c="${c##*+}";; esac
  if [ $# -gt 0 ]; then case " $* " in *" $c "*) ;; *) continue;; esac; fi
  subj="$(git -C /repo log -1 --format=%s "$c")"
  bad=""
  for pc in ${pre//+/ }; do
    git -C /repo revert -n "$pc" >/dev/null 2>&1 || { bad="$pc"; break; }
  done
  if [ -n "$bad" ]; then echo "$c REVERT-CONFLICT(pre $bad) $subj" | tee -a "$OUT"; git -C /repo reset -q --hard HEAD; fail=1; continue; fi
  base=""
  if [ -n "$pre" ]; then
    for chk in ${checks//,/ }; do
      out="$(VERIF_HANG_S=20 ./run.sh "$chk" quick 2>/dev/null)"; rc=$?
      [ $rc -eq 0 ] || base="$base $chk"
    done
  fi
  if [ -n "$patch" ]; then
    git -C /repo apply "$PWD/$patch" || { echo "$c PATCH-DOES-NOT-APPLY $subj" | tee -a "$OUT"; git -C /repo reset -q --hard HEAD; fail=1; continue; }
  elif ! git -C /repo revert -n "$c" >/dev/null 2>&1; then echo "$c REVERT-CONFLICT $subj" | tee -a "$OUT"; git -C /repo reset -q --hard HEAD; fail=1; continue; fi
  tests="tests-pass"
  (cd /repo && go test -vet=off -count=1 ./... >/dev/null 2>&1) || tests="TESTS-FAIL"
  for chk in ${checks//,/ }; do
    case " $base " in *" $chk "*) echo "$c $chk UNATTRIBUTABLE (alarm already with only $pre reverted) | $subj" | tee -a "$OUT"; fail=1; continue;; esac
    out="$(VERIF_HANG_S=20 ./run.sh "$chk" quick 2>/dev/null)"; rc=$?
    if [ $rc -eq 1 ] && echo "$out" | grep -q "^VIOLATION property=$chk "; then res=DETECTED; else res="MISSED(rc=$rc)"; fail=1; fi
    echo "$c $chk $res $tests | $subj" | tee -a "$OUT"
  done
  git -C /repo reset -q --hard HEAD
done
git -C /repo status --porcelain
exit $fail
