#!/usr/bin/env python3
# Regenerates DESIGN.md section 9 from seeded/*/meta.json and seeded/strengthening_notes.json.
import json,glob,os
notes=json.load(open('/verif/seeded/strengthening_notes.json'))
rows=[]; n=0; det=0; first=0
for m in sorted(glob.glob('/verif/seeded/C*-*/meta.json')):
    j=json.load(open(m)); name=os.path.basename(os.path.dirname(m)); n+=1
    t=(j.get('needs_to_manifest') or '').strip().split('\n')
    f=next((l.strip('# *').strip() for l in t if l.strip()), '')
    f=f.split('—',1)[-1].split(' - ',1)[-1].split(' – ',1)[-1].strip()[:150].replace('|','/')
    qc=j.get('quick_checks',{})
    d=', '.join(sorted(k for k,v in qc.items() if v=='detected'))
    if name.split('-')[0] in [k for k,v in qc.items() if v=='detected']: det+=1
    if name in notes: st='after strengthening: '+notes[name]
    else: st='first run'; first+=1
    if j.get('rebased'): st+=' (patch re-based, see meta.json)'
    rows.append('| %s | %s | %s | %s |'%(name,f,d,st))
sec='''## 9. Which checks catch which changes

Two kinds of evidence, both reproducible with the scripts named:

**(a) Every repaired defect, re-introduced.** `tools/revert_selftest.sh` reverts each `fix:`
commit in /repo's working tree (nothing is committed), runs the repository's own tests (they
pass in every case: the defects were invisible to them), runs the quick check of the property
named in §7 and expects exit 1 with a VIOLATION line, then restores /repo. Result: every revert
is detected (`selftest/revert_report.txt`).

**(b) %d changes written by independent sub-agents** in three rounds. Each agent received only
the text of one property and a scratch worktree (nothing from /verif; from round 2 on also a
two-line summary of the ideas already used for that property, so that it would look elsewhere)
and produced changes that compile, pass the 38 existing tests, break the property, and need
something specific to manifest; each came with a demonstration test. I re-confirmed every one
in a scratch worktree (suite passes with the change, demo fails with it, demo passes without
it) before keeping it as `/verif/seeded/<id>-<k>/` (`patch.diff`, `demo_test.go`, `notes.md`,
`meta.json`). Detected by the property's quick check as it stood when the seed arrived:
round 1 27/40, round 2 23/40, round 3 29/40 (%d of %d overall). Every miss was analysed and the
check strengthened *in general terms* (a new family, alphabet member, leg or oracle, never a
special case for the seed); after that %d of %d are detected by the quick check of the
property they break, and the unchanged tree stays silent. `tools/seed_all.sh` re-runs the
whole table in a scratch mirror (`/tmp/ev`, so /repo and /verif/evidence are not touched).

| seed | what it does | detected by (quick) | when |
|---|---|---|---|
%s

Patterns that the first build missed and the strengthened checks now cover: two results alive
at once (shared scratch objects); an operand's *history* (context inherited from a builtin
result); one formula text over data that differs in one entry (memo tables keyed by text, by
float value, by name, by hash slot) and one *tree* evaluated with different data; runners
without a data map; state that only the *next* call sees (pooled objects dirty after an error
path, locks not released on a panic path, a memo updated before its error check) — the history
legs of C08/C10/C13/C19 and the post-schedule probes of C09; locks (sync shims), per-thread
data and cold trees in the interleaving exploration; inputs built around the one speculative
parser path; the literal at the very end of the input; exponent print forms; equal instants in
different zones; evaluation order with spread; in-place truncation of arguments; tree mutation
by the evaluator; NUL bytes and BOMs; extreme exponents and self-containing data (two more
genuine defects, §7).

Not every conceivable change is caught: thresholds beyond the explored sizes (e.g. a limit
that needs more than 16 x 600 nesting levels in flight), unsynchronised accesses between yield
points that the sampled race pass happens not to hit, defects that need more than the stated
token / node / history depth, and value-dependent branches on operands outside the grids remain
outside the claim (see §6).
''' % (n, first, n, det, n, '\n'.join(rows))
p='/verif/DESIGN.md'; s=open(p).read()
i=s.index('## 9. Which checks catch which changes')
rest=''
j=s.find('## 10. ')
if j>0: rest='\n'+s[j:]
s=s[:i]+sec+rest
open(p,'w').write(s)
print(n,first,det)
