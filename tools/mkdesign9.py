#!/usr/bin/env python3
# Regenerates DESIGN.md section 9 from seeded/*/meta.json and seeded/strengthening_notes.json.
import json,glob,os
notes=json.load(open('/verif/seeded/strengthening_notes.json'))
rows=[]; n=0; det=0; first=0; other=0; outside=0
for m in sorted(glob.glob('/verif/seeded/C*-*/meta.json')):
    j=json.load(open(m)); name=os.path.basename(os.path.dirname(m)); n+=1
    t=(j.get('needs_to_manifest') or '').strip().split('\n')
    f=next((l.strip('# *').strip() for l in t if l.strip()), '')
    f=f.split('—',1)[-1].split(' - ',1)[-1].split(' – ',1)[-1].strip()[:150].replace('|','/')
    qc=j.get('quick_checks',{})
    d=', '.join(sorted(k for k,v in qc.items() if v=='detected'))
    if name.split('-')[0] in [k for k,v in qc.items() if v=='detected']: det+=1
    elif d: other+=1
    if j.get('outside_claim'): st='not reported, correctly: '+j['outside_claim']; outside+=1
    elif name in notes: st='after strengthening: '+notes[name]
    else: st='first run'; first+=1
    if j.get('rebased'): st+=' (patch re-based, see meta.json)'
    rows.append('| %s | %s | %s | %s |'%(name,f,d,st))
sec='''## 9. Which checks catch which changes

Two kinds of evidence, both reproducible with the scripts named:

**(a) Every repaired defect, re-introduced.** `tools/revert_selftest.sh` takes each `fix:` commit
out of /repo's working tree again (by `git revert -n`, for five commits by a hand-made patch;
nothing is committed), runs the repository's own tests (they pass in every case: the defects were
invisible to them), runs the quick check of the property named in §7 and expects exit 1 with a
VIOLATION line, then restores /repo; `tools/revert_hist.sh` does the equivalent for fourteen
commits that can no longer be reverted on HEAD, by comparing /repo's tree at the commit with the
tree at its parent. Result: all 61 repairs are detected when removed
(`selftest/revert_report.txt`, `selftest/revert_hist_report.txt`).

**(b) %d changes written by independent sub-agents** in eleven rounds (nine of 40, one of 40 more with one seed pair per property, one of 24 for the twelve properties whose round-10 seeds had been missed). Each agent received only
the text of one property and a scratch worktree (nothing from /verif; from round 2 on also a
two-line summary of the ideas already used for that property, so that it would look elsewhere;
from round 5 on also the request to make the change correct for every input of normal size and
wrong only far outside, or visible to one consumer of an intermediate result only, and - first -
to hunt for violations in the unmodified code, §7) and produced changes that compile, pass the 38 existing tests, break the
property, and need something specific to manifest; each came with a demonstration test. I
re-confirmed every one in a scratch worktree (suite passes with the change, demo fails with it,
demo passes without it) before keeping it as `/verif/seeded/<id>-<k>/` (`patch.diff`,
`demo_test.go`, `notes.md`, `meta.json`). Detected by the property's quick check as it stood
when the seed arrived: round 1 27/40, round 2 23/40, round 3 29/40, round 4 25/40, round 5
12/40, round 6 14/40, round 7 15/40, round 8 20/40, round 9 16/40, round 10 22/40, round 11 12/24 (215 of 424 overall) - the agents were told what had been tried, so each round looked
where the checks had not yet been shown to look. Every miss was analysed and the check
strengthened *in general terms* (a new family, alphabet member, leg or oracle, never a
special case for the seed); after that %d of %d are detected by the quick check of the
property they break, %d more by the check of another property whose business they really are
(a defect that only shows between goroutines, or only in the second evaluation of a process,
is C09's or C08's to report whichever property the agent was given), and %d are correctly not
reported: two break no listed property (C12-9 and C12-18, within C04's stated tolerance), the others were
*neutralised by later repairs* - each needs a route (a panic inside the parser, a typed nil pointer
reaching an operator) that the `fix:` commits of §7 have closed, so that on the current tree the
change no longer breaks its property and its own demonstration passes (`outside_claim` in their
`meta.json` names the repair). The unchanged tree stays silent.
The whole table was last re-run after round 9; the legs of rounds 10 and 11 were added to the checks without changing an existing leg, alphabet or oracle (§8.4), the 64 new seeds and the three re-based patches were run one by one (`tools/seed_run.sh`), and - because the explorer now gives a scenario up after three stalled executions - so were C09-13 (the only older seed that uses a primitive the scheduler does not model, a WaitGroup) and the five seeds of other properties that only C09 detects: all still detected.
`tools/seed_all.sh` re-runs the whole table in a scratch mirror (`/tmp/ev`, so /repo and
/verif/evidence are not touched); patches that touch lines changed by later `fix:` commits
were re-based (the delivered patch is kept as `patch.orig.diff`).

| seed | what it does | detected by (quick) | when |
|---|---|---|---|
%s

Patterns that the first build missed and the strengthened checks now cover: two results alive
at once (shared scratch objects); an operand's *history* (context inherited from a builtin
result); one formula text over data that differs in one entry (memo tables keyed by text, by
float value, by name, by hash slot) and one *tree* evaluated with different data; runners
without a data map; state that only the *next* call sees (pooled objects dirty after an error
path, locks not released on a panic path, a memo updated before its error check) — the history
legs of C08/C10/C13/C19 and the post-schedule probes of C09; locks (sync shims), per-thread
data and cold trees in the interleaving exploration; inputs built around the one speculative
parser path; the literal at the very end of the input; exponent print forms; equal instants in
different zones; evaluation order with spread; in-place truncation of arguments; tree mutation
by the evaluator; NUL bytes and BOMs; extreme exponents and self-containing data (two more
genuine defects, §7); and, after rounds 4 and 5: unicode line terminators and BOMs in every
gap; the same number in several spellings; the value a *later read* of a local sees; operands
with side effects; computed operands classified by their observed value; state that accumulates
on one runner over tens of thousands of calls (soak legs); data objects that live across
evaluations; answers that depend on chance (determinism leg); locks left behind by error
paths; keys spelled like keywords, with leading underscores, or differing only in case;
parameter types that merely implement an interface; aliased but acyclic arguments;
exponent-carrying zeros; trees returned together with an error; and, after rounds 6 to 8: who owns a
result (lists handed out twice, a caller's slice rewritten or sorted in place, a caller's buffer
written behind the parsed window); what the *same runner* does next (a clock frozen by a failed
evaluation, a flag left set by a panic, a lock that is not re-entrant, a context read from the
runner instead of the call); flat chains as deep trees; mixed operators of equal precedence;
digit groups at machine-word sizes; bytes that are not UTF-8 wherever order or position counts;
Go values of rarely used kinds (embedded structs, unsigned integers, unset times).

Not every conceivable change is caught: thresholds beyond the explored sizes (e.g. a limit
that needs more than 16 x 600 nesting levels in flight), unsynchronised accesses between yield
points that the sampled race pass happens not to hit, defects that need more than the stated
token / node / history depth, and value-dependent branches on operands outside the grids remain
outside the claim (see §6).
''' % (n, det, n, other, outside, '\n'.join(rows))
p='/verif/DESIGN.md'; s=open(p).read()
i=s.index('## 9. Which checks catch which changes')
rest=''
j=s.find('## 10. ')
if j>0: rest='\n'+s[j:]
s=s[:i]+sec+rest
open(p,'w').write(s)
print(n,first,det)
