#!/usr/bin/env python3
"""Regenerates the table of DESIGN.md section 7 (from known_findings.json) and the table of
section 8.5 (from evidence/*.json). Text around the tables is left alone."""
import json, re, glob, os
os.chdir(os.path.join(os.path.dirname(os.path.abspath(__file__)), '..'))
d = open('DESIGN.md').read()
k = json.load(open('known_findings.json'))['findings']
rows = ['| # | property | commit | what failed |', '|---|---|---|---|']
for i, f in enumerate(k, 1):
    what = f['what']
    m = re.match(r'fixed: property=\S+ \S+ (.*)', what, re.S)
    if m: what = m.group(1)
    status = '' if f['status'] == 'fixed' else ' (**known, not repaired**)'
    rows.append('| %d | %s | `%s` | %s%s |' % (i, f['property'], f.get('commit', '-'), what.replace('|', '\\|').replace('\n', ' '), status))
d = re.sub(r'\| # \| property \| commit \| what failed \|\n\|---\|---\|---\|---\|\n(\|.*\n)+', lambda m, t='\n'.join(rows) + '\n': t, d, count=1)
rows = ['| id | evaluations | states | distinct outcome classes | wall | exhaustive |', '|---|---|---|---|---|---|']
for p in sorted(glob.glob('evidence/C*.json')):
    e = json.load(open(p)); c = e.get('coverage', {})
    def g(*names):
        for n in names:
            if n in c: return c[n]
        return '?'
    rows.append('| %s | %s | %s | %s | %.1f s | %s |' % (e['property_id'], g('evaluations', 'traces_validated_against_impl'), g('states'), g('distinct_nontrivial', 'distinct_outcomes'), e.get('wall_s', 0), g('exhaustive')))
d = re.sub(r'\| id \| evaluations \| states \| distinct outcome classes \| wall \| exhaustive \|\n\|---\|---\|---\|---\|---\|---\|\n(\|.*\n)+', lambda m, t='\n'.join(rows) + '\n': t, d, count=1)
open('DESIGN.md', 'w').write(d)
print('section 7 rows:', len(k))
