#!/bin/bash
# tools/seed_eval.sh <Cxx> <k> [extra checks...]
# Confirms a seeded change produced by an independent sub-agent in its scratch worktree
# (suite passes with it, demo fails with it, demo passes without it), stores it under
# /verif/seeded/<Cxx>-<k>/, then applies it to /repo, runs the property's quick check (and any
# extra checks given) and restores /repo.
set -u
cd "$(dirname "$0")/.."
export GOFLAGS=-mod=mod GOPROXY=off GOSUMDB=off GOTOOLCHAIN=local
ID="$1"; K="$2"; shift 2
WT="/tmp/wt/$ID"; SD="$WT/_seed/$K"
[ -f "$SD/patch.diff" ] || { echo "$ID-$K: no patch"; exit 2; }
DEST="seeded/$ID-$K"
mkdir -p "$DEST"
cp "$SD/patch.diff" "$SD/demo_test.go" "$DEST/" 2>/dev/null
[ -f "$SD/notes.md" ] && cp "$SD/notes.md" "$DEST/"
cd "$WT" && git checkout -q -- . && rm -f demo_test.go
git apply --check "$SD/patch.diff" || { echo "$ID-$K: patch does not apply"; exit 2; }
git apply "$SD/patch.diff"
suite=pass; go test -vet=off -count=1 ./... >/dev/null 2>&1 || suite=FAIL
cp "$SD/demo_test.go" demo_test.go
demo_with=pass; go test -vet=off -count=1 -run TestSeedDemo ./... >/dev/null 2>&1 || demo_with=fail
git checkout -q -- . 
demo_without=pass; go test -vet=off -count=1 -run TestSeedDemo ./... >/dev/null 2>&1 || demo_without=fail
rm -f demo_test.go
cd /verif
confirmed=no
[ "$suite" = pass ] && [ "$demo_with" = fail ] && [ "$demo_without" = pass ] && confirmed=yes
results=""
if [ "$confirmed" = yes ]; then
  tools/alt_sync.sh "${EVD:-/tmp/ev}" || exit 2
  git -C ${EVD:-/tmp/ev}/repo checkout -q -- . ; git -C ${EVD:-/tmp/ev}/repo clean -fdq
  applied=yes
  git -C ${EVD:-/tmp/ev}/repo apply "/verif/$DEST/patch.diff" || { echo "cannot apply to scratch repo (needs re-basing onto the current HEAD)"; applied=no; }
  [ "$applied" = yes ] && for chk in "$ID" "$@"; do
    out="$(cd ${EVD:-/tmp/ev}/verif && VERIF_HANG_S=40 VERIF_REPO=${EVD:-/tmp/ev}/repo ./run.sh "$chk" quick 2>/dev/null)"; rc=$?
    if [ $rc -eq 1 ] && echo "$out" | grep -q "^VIOLATION property=$chk "; then r=detected; elif [ $rc -eq 0 ]; then r=missed; else r="error(rc=$rc)"; fi
    results="$results $chk=$r"
  done
  git -C ${EVD:-/tmp/ev}/repo checkout -q -- . ; git -C ${EVD:-/tmp/ev}/repo clean -fdq
fi
python3 - "$DEST" "$ID" "$K" "$suite" "$demo_with" "$demo_without" "$confirmed" "$results" <<'PY'
import json,sys,os
dest,pid,k,suite,dw,dwo,conf,results=sys.argv[1:9]
meta_path=os.path.join(dest,'meta.json')
meta={}
if os.path.exists(meta_path):
    meta=json.load(open(meta_path))
notes=''
if os.path.exists(os.path.join(dest,'notes.md')): notes=open(os.path.join(dest,'notes.md')).read()
meta.update({"property":pid,"seed":k,"breaks":pid,"origin":"independent sub-agent given only the property text and a scratch worktree",
 "needs_to_manifest":notes.strip()[:1500],
 "confirmation":{"suite_with_change":suite,"demo_with_change":dw,"demo_without_change":dwo,"confirmed":conf=="yes",
   "ran":"in scratch worktree: git apply patch.diff; go test -vet=off -count=1 ./... ; go test -run TestSeedDemo ; git checkout -- . ; go test -run TestSeedDemo"},
 "quick_checks":{kv.split('=',1)[0]:kv.split('=',1)[1] for kv in results.split()}})
json.dump(meta,open(meta_path,'w'),indent=1)
print(pid+'-'+k, "confirmed="+conf, results)
PY
