#!/usr/bin/env python3
# Regenerates MANIFEST.json from the table below (kept in one place so that it stays valid).
import json, sys
props = {}
for l in open('/verif/properties.jsonl'):
    p = json.loads(l); props[p['id']] = p

CHECKS = {
 # id: (technique, level text, level note, design_ref)
 "C01": ("bounded-exhaustive enumeration of token sequences / byte strings / pathological shapes on the real parser; instrumented step counting",
         "Every input in the enumerated spaces is parsed by the real ParseSourceCode and judged (no panic, error xor complete tree, input consumed, linear step count under the overlay-instrumented build). Exhaustive within the stated alphabets and lengths; sizes up to 64 KiB only through the fixed pathological family.",
         "Trusted: completeness walk over exported node types, vinstr step instrumentation. Linear time is judged on step counts, not wall-clock.", "C01"),
 "C02": ("bounded-exhaustive differential model checking: independent reference tokenizer + recursive-descent parser vs. the real parser on every enumerated token sequence",
         "Every token sequence / byte string / closed operator family in the bound is parsed by both the implementation and a reference written from the grammar in the statement; accept/reject and canonical trees must agree on every one.",
         "Trusted: internal/ref tokenizer, parser and decimal literal values. Exhaustive only within alphabets/lengths.", "C02"),
 "C14": ("bounded-exhaustive scanner exploration with tiling invariants, differential against a reference longest-match tokenizer, metamorphic spacing oracle (also over all 4-lexeme sequences of list/call punctuation and refused formulas), all 1.1M code points",
         "The scanner is driven directly on every enumerated input; tiling/progress invariants and a token-by-token differential are checked on each; class predicates are compared for every code point.",
         "Trusted: reference tokenizer, pinned snapshot of the ES5 tables (no independent copy exists offline).", "C14"),
 "C15": ("bounded-exhaustive enumeration of accepted/rejected inputs with all six line-break forms; structural range oracle, re-parse oracle, direct line/column count",
         "Every node of every accepted tree in the bound is checked for nesting/order/re-parse; every rejection with a diagnostic is checked against a direct line/column count; helpers are checked for every text x offset in the bound.",
         "Trusted: direct line/column counter. Every rejection must carry a diagnostic; trees returned together with an error must nest their ranges too.", "C15"),
 "C03": ("bounded-exhaustive enumeration of operator x value-kind products, builtin x argument-list products and parsed token sequences on the real evaluator; instrumented step budget",
         "Every formula in the enumerated products is evaluated by the real Resolve with a data map holding every supported and odd Go kind; each evaluation is judged for no panic, value xor error, termination; every builtin with every wrong number of arguments (plain and spread) and every negative string position down to the smallest 64-bit integer must be an error - every time, also on a runner that has reported it before; arrays and maps of the same or of different Go types under all eight comparison operators.",
         "Trusted: value alphabet in checks/zoo.go. Host functions that panic themselves and pad lengths between 1e6 and absurd are outside the statement.", "C03"),
 "C04": ("bounded-exhaustive operand-grid exploration against an exact big-integer decimal reference model",
         "All ordered pairs of an 880-operand grid under + - * / %, groups of operands around base exponents far outside decimal128 (up to 10^15), all 3-operation chains over a sub-grid and all listed float64/int/int64 data values (incl. whole numbers up to 2^52 with 1 to 16 fractional bits) are evaluated on the real evaluator and compared with exact decimal arithmetic rounded half-even to 34 digits, including the float64 handed back.",
         "Trusted: internal/ref/dec.go on math/big, strconv for nearest float64. Division by zero not judged.", "C04"),
 "C05": ("exhaustive pair exploration of a value grid; relational laws between the eight operator results on each pair, exact reference order",
         "Every ordered pair of a 290-value grid (number spellings, computed numbers, exponents far outside decimal128, data values, strings, booleans, nulls) is evaluated under all eight operators and the results are judged against trichotomy, negation, kind-strictness and the exact order.",
         "Trusted: exact decimal comparison, Go byte-wise string order. Mixed-kind < and == only under the negation laws.", "C05"),
 "C06": ("exhaustive exploration of condition x branch products for the six selection operators and all depth-2 nestings against a truthiness reference; branch evaluation observed by recording functions and locals",
         "Every (condition, branch) combination and every depth-2 nesting is evaluated on the real evaluator; the result must be the operand the reference semantics selects, unchanged, and only the selected branch of ?: may run; operands spelled exactly like the condition (stateful host calls) against a differently spelled alias; one parsed tree under every ordered pair of 21 inputs (context kind x value) against freshly parsed trees; assignments as branches with and without parentheses.",
         "Trusted: truthiness table from the statement; computed operands are classified by the value they are observed to have; an operand with a side effect must be evaluated once.", "C06"),
 "C12": ("bounded-exhaustive enumeration of literal spellings against a reference number automaton and exact decimal values",
         "Every string up to n characters over the literal alphabet and every long literal in the family is scanned, parsed and evaluated in six syntactic contexts; accept/reject, tree and exact value must match the reference; separators at every position of digit groups of 20 to 257 digits; all pairs and triples of 21 literal formulas on one runner against fresh runners (incl. refused exponents before ordinary ones).",
         "Trusted: reference automaton and exact decimals. Exponents of more than 17 digits: only an error or a value that behaves like the number written is accepted.", "C12"),
 "C13": ("bounded-exhaustive enumeration of texts x quote styles x escape-form combinations against a reference escaper",
         "Every text up to n atoms is escaped in every combination of equivalent forms, evaluated on the real code and compared byte for byte; every open literal must be rejected.",
         "Trusted: reference escaper.", "C13"),
 "C16": ("bounded-exhaustive path exploration over data configurations against a direct Go walk of the data",
         "Every dotted path up to depth d over a key universe (incl. reserved words, underscore-prefixed and case-variant keys, typed nil pointers of several pointee types), with . or !. at every position, is evaluated against four data configurations and compared with a type-switch walk of the same data (value, typeof, strict and loose null-equality, error); one runner after 12 000 failed evaluations must answer like a fresh one.",
         "Trusted: the walk in checks/c16.go. Member access on non-map non-struct values, pointers to structs and unexported fields: only no-panic.", "C16"),
 "C17": ("bounded-exhaustive enumeration of strings x strings x positions for every string/list builtin against naive reference loops, plus the algebraic laws evaluated inside the language",
         "All strings up to 4 symbols over a 5-symbol alphabet (incl. a multi-byte character), all needles, all positions from -2 to len+2 (pads: every length up to 130 and around 256, 1024, 4096) are run through every builtin; 14 forms x 2 401 argument pairs answered by one runner in both orders against fresh runners on the real evaluator and compared with naive references; regexp against RE2 directly.",
         "Trusted: naive references, Go regexp. Byte semantics for len.", "C17"),
 "C18": ("grid-exhaustive exploration of decimal arguments against exact rational arithmetic and a self-checking 320-bit reference for the transcendental functions",
         "Every argument of the grid is run through all numeric builtins on the real evaluator; integer-valued functions are compared exactly (arguments of up to 34 digits), sqrt/exp/ln/log to 5e-15 relative (magnitudes up to 1e5000), max/min over all short lists incl. exponent-carrying zeros, bit operators over all pairs of 33 integers up to the int64 limits and a grid of non-integers, numeric and non-numeric text.",
         "Trusted: math/big, internal/ref/num.go (self-checked every run).", "C18"),
 "C19": ("exhaustive (y,m,d) / shift / time-of-day grids per time zone (one worker process per TZ) against independent days-from-civil arithmetic",
         "Every triple of the grid is evaluated through date/addDate and all extractors inside the language in six zones; civil fields, weekday and Unix milliseconds are compared with an independent calendar computation; useTimezone/timeFormat/now/toDay likewise.",
         "Trusted: calendar arithmetic in checks/c19.go, Go zone tables for offsets only. Non-existent local midnights skipped and counted.", "C19"),
 "C07": ("bounded-exhaustive program enumeration and operation histories against a store-passing reference evaluator plus a deep identity/content snapshot of caller data",
         "Every program up to n nodes over locals, a field, literals, assignment, comma, arrays, recording calls and conditionals is run on five data configurations, every history of up to three pool programs on one runner (going on after programs that fail), every forbidden assignment target, every operator and builtin on a number reached directly and through eight operand-preserving forms, the callee-before-arguments order with locals re-bound inside the arguments; result, locals afterwards, host-call order and the frame condition are compared on each.",
         "Trusted: reference evaluator in checks/c07.go. Arithmetic on non-numbers is tainted and not compared.", "C07"),
 "C08": ("explicit exploration of operation histories (all ordered pairs, triples, quadruples over sub-pools) without state merging, each observation compared with a pristine-process baseline",
         "Every history in the bound runs in one process state; each parse / evaluation / field analysis must observe exactly what the same operation observes alone in a fresh child process; shared trees are dumped before and after every operation; results handed back earlier must never change later.",
         "Trusted: public-API tree dump; one child process per baseline. Also: the same operation 24 times in a row, and data objects shared between the evaluations of a history. The pool includes names with continue-only characters (combining marks, non-ASCII digits, joiners) and one name bound to functions of equal parameter count and different shape, refused exponents next to ordinary ones; 900 000 distinct names of one length in one process. Clock functions excluded.", "C08"),
 "C09": ("stateless model checking of the real code: cooperative scheduler with yield points injected by overlay, iterative preemption bounding (DFS over choice prefixes), plus a separate free-running race-detector pass",
         "Every interleaving with at most b preemptions of 2-3 goroutines (evaluate / analyse one of 21 shared trees with per-thread data - incl. a refused call, paired logarithms, a read-only catalogue shared by all data maps -, parse, parse+format a bad text and walk the returned tree) at function-entry and shared-variable granularity is executed on the real package; each thread must observe its sequential result, shared trees must stay unchanged, no lock may be left behind (deadlocks among shimmed locks and locks left locked by an error path are violations). A control scenario proves the scheduler interleaves inside evaluations. Leg B samples free-running schedules under -race.",
         "Trusted: internal/sched, vinstr yield injection, Go race detector. Data races between yield points are only covered by the sampled leg B.", "C09"),
 "C10": ("bounded-exhaustive formula enumeration against an independent field collector over the reference tree, plus a sufficiency oracle by restricted/perturbed re-evaluation",
         "Every formula up to n nodes (and every accepted token sequence up to 5 tokens over the analysis alphabet) is analysed by the real code and by a collector walking the reference tree; set inclusion both ways, duplicates, refusals, the non-local variant and sufficiency on three data maps plus a runner without data map are checked on each; name sets that repeat or differ only in case in every order; sums of 1 to 12 distinct names with two repeats at every pair of places; the local spelled `$`.",
         "Trusted: reference parser and collector. Pure assignment targets may or may not be reported.", "C10"),
 "C11": ("exhaustive exploration of synthesised signatures x argument lists against a partial conversion specification; every invocation recorded",
         "Every signature in the family (reflect.FuncOf/MakeFunc; 21 parameter kinds incl. unsigned integers and a type that merely implements context.Context) is called with every argument list up to n+2 arguments over 16 base and 50 extended argument kinds (integer range limits, non-finite numbers, a float32 midpoint, Go-typed slices and numbers, typed nil by name, aliased and address-sharing objects, a map with a nil entry), with and without spread; invoked-exactly-once-or-not-at-all, received values, context identity, result normalisation and error propagation over all subsets of failing call sites x 13 error values (sentinels of the standard library bare and wrapped, custom types, empty text) are checked.",
         "Trusted: table written from the statement; unspecified cells only require no panic and at most one invocation.", "C11"),
 "C20": ("explicit-state exploration of runner operation histories in lock-step with a plain-map reference model: all histories to depth d unmerged, breadth-first with state merging and differential probes to depth 7+",
         "Every history over a 55-operation menu (incl. evaluations that fail in three ways, re-binding a local to an equal number written differently, lists built from the data and shared between locals, bindings followed by a failure, the map `this` evaluated to handed back by the host) up to depth d is replayed on a fresh real runner and compared step by step with the model (results, gets, every caller-visible map); merged search adds depth and checks that a state reached two ways answers all probes alike; one operation repeated 25 000 / 120 000 times on one runner, then every read.",
         "Trusted: model in checks/c20.go.", "C20"),
}
PENDING_REASON = "check not built yet in this phase (planned: bounded-exhaustive enumeration per DESIGN.md); will be claimed once its check runs green"

def main():
    checks = []
    na = []
    for pid in sorted(props):
        if pid in CHECKS:
            tech, text, note, dref = CHECKS[pid]
            checks.append({
                "property_id": pid,
                "quick_cmd": "./run.sh %s quick" % pid,
                "thorough_cmd": "./run.sh %s thorough" % pid,
                "evidence_file": "/verif/evidence/%s.json" % pid,
                "replay_cmd_template": "./run.sh replay {path}",
                "engine": "vcheck",
                "level_claimed": {"category": "model_checking", "text": text, "design_ref": "DESIGN.md section " + dref},
                "level_note": note,
                "technique": tech,
            })
        else:
            na.append({"property_id": pid, "reason": PENDING_REASON})
    m = {
        "version": 1,
        "setup_cmd": "./run.sh setup",
        "hooks": {
            "guard": "verif-overlay (no hook commits in /repo: instrumentation is generated into a scratch copy by cmd/vinstr and compiled with go build -overlay, harness build tag 'instr')",
            "enable": "./run.sh builds bin/vcheck-instr with: vinstr /repo $TMP/ov && go build -tags instr -overlay $TMP/ov/overlay.json ./cmd/vcheck",
            "baseline_off_cmd": "cd /repo && GOFLAGS=-mod=mod GOPROXY=off GOSUMDB=off go test -json -vet=off -count=1 -timeout 25m ./...",
            "source_commits": [],
            "add_only": True,
        },
        "engines": [
            {"name": "vcheck", "path": "/verif/cmd/vcheck", "serves_properties": sorted(CHECKS), "kind_free_text": "hand-written bounded-exhaustive explorer: sharded enumeration over worker processes, reference models in Go stepped against the real code, failure re-judging, known-findings matching, evidence writer"},
            {"name": "vinstr", "path": "/verif/cmd/vinstr", "serves_properties": ["C01", "C03", "C09"], "kind_free_text": "go/ast instrumenter producing a go build overlay (step counter, scheduler yield points)"},
        ],
        "checks": checks,
        "not_applicable": na,
        "notes": "All commands rebuild from /repo's working tree. Known findings: /verif/known_findings.json.",
    }
    json.dump(m, open('/verif/MANIFEST.json', 'w'), indent=1)
    print("checks:", len(checks), "not_applicable:", len(na))
main()
