#!/usr/bin/env python3
# Regenerates MANIFEST.json from the table below (kept in one place so that it stays valid).
import json, sys
props = {}
for l in open('/verif/properties.jsonl'):
    p = json.loads(l); props[p['id']] = p

CHECKS = {
 # id: (technique, level text, level note, design_ref)
 "C01": ("bounded-exhaustive enumeration of token sequences / byte strings / pathological shapes on the real parser; instrumented step counting",
         "Every input in the enumerated spaces is parsed by the real ParseSourceCode and judged (no panic, error xor complete tree, input consumed, linear step count under the overlay-instrumented build). Exhaustive within the stated alphabets and lengths; sizes up to 64 KiB only through the fixed pathological family.",
         "Trusted: completeness walk over exported node types, vinstr step instrumentation. Linear time is judged on step counts, not wall-clock.", "C01"),
 "C02": ("bounded-exhaustive differential model checking: independent reference tokenizer + recursive-descent parser vs. the real parser on every enumerated token sequence",
         "Every token sequence / byte string / closed operator family in the bound is parsed by both the implementation and a reference written from the grammar in the statement; accept/reject and canonical trees must agree on every one.",
         "Trusted: internal/ref tokenizer, parser and decimal literal values. Exhaustive only within alphabets/lengths.", "C02"),
 "C14": ("bounded-exhaustive scanner exploration with tiling invariants, differential against a reference longest-match tokenizer, metamorphic spacing oracle, all 1.1M code points",
         "The scanner is driven directly on every enumerated input; tiling/progress invariants and a token-by-token differential are checked on each; class predicates are compared for every code point.",
         "Trusted: reference tokenizer, pinned snapshot of the ES5 tables (no independent copy exists offline).", "C14"),
 "C15": ("bounded-exhaustive enumeration of accepted/rejected inputs with all six line-break forms; structural range oracle, re-parse oracle, direct line/column count",
         "Every node of every accepted tree in the bound is checked for nesting/order/re-parse; every rejection with a diagnostic is checked against a direct line/column count; helpers are checked for every text x offset in the bound.",
         "Trusted: direct line/column counter. Errors without diagnostic (end-of-input assertion) are only required to be errors.", "C15"),
}
PENDING_REASON = "check not built yet in this phase (planned: bounded-exhaustive enumeration per DESIGN.md); will be claimed once its check runs green"

def main():
    checks = []
    na = []
    for pid in sorted(props):
        if pid in CHECKS:
            tech, text, note, dref = CHECKS[pid]
            checks.append({
                "property_id": pid,
                "quick_cmd": "./run.sh %s quick" % pid,
                "thorough_cmd": "./run.sh %s thorough" % pid,
                "evidence_file": "/verif/evidence/%s.json" % pid,
                "replay_cmd_template": "./run.sh replay {path}",
                "engine": "vcheck",
                "level_claimed": {"category": "model_checking", "text": text, "design_ref": "DESIGN.md section " + dref},
                "level_note": note,
                "technique": tech,
            })
        else:
            na.append({"property_id": pid, "reason": PENDING_REASON})
    m = {
        "version": 1,
        "setup_cmd": "./run.sh setup",
        "hooks": {
            "guard": "verif-overlay (no hook commits in /repo: instrumentation is generated into a scratch copy by cmd/vinstr and compiled with go build -overlay, harness build tag 'instr')",
            "enable": "./run.sh builds bin/vcheck-instr with: vinstr /repo $TMP/ov && go build -tags instr -overlay $TMP/ov/overlay.json ./cmd/vcheck",
            "baseline_off_cmd": "cd /repo && GOFLAGS=-mod=mod GOPROXY=off GOSUMDB=off go test -json -vet=off -count=1 -timeout 25m ./...",
            "source_commits": [],
            "add_only": True,
        },
        "engines": [
            {"name": "vcheck", "path": "/verif/cmd/vcheck", "serves_properties": sorted(CHECKS), "kind_free_text": "hand-written bounded-exhaustive explorer: sharded enumeration over worker processes, reference models in Go stepped against the real code, failure re-judging, known-findings matching, evidence writer"},
            {"name": "vinstr", "path": "/verif/cmd/vinstr", "serves_properties": ["C01", "C03", "C09"], "kind_free_text": "go/ast instrumenter producing a go build overlay (step counter, scheduler yield points)"},
        ],
        "checks": checks,
        "not_applicable": na,
        "notes": "All commands rebuild from /repo's working tree. Known findings: /verif/known_findings.json.",
    }
    json.dump(m, open('/verif/MANIFEST.json', 'w'), indent=1)
    print("checks:", len(checks), "not_applicable:", len(na))
main()
