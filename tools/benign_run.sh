#!/bin/bash
# tools/benign_run.sh <name>   applies /verif/benign/<name>.diff (a behaviour-preserving or
# property-preserving change) in the scratch mirror /tmp/ev2 and runs every quick check: all must
# stay silent (exit 0, no VIOLATION). Prints one line per check that is NOT silent.
set -u
cd "$(dirname "$0")/.."
export GOFLAGS=-mod=mod GOPROXY=off GOSUMDB=off GOTOOLCHAIN=local
N="$1"; D=/tmp/ev2
tools/alt_sync.sh "$D" || exit 2
git -C "$D/repo" checkout -q -- . ; git -C "$D/repo" clean -fdq
git -C "$D/repo" apply "/verif/benign/$N.diff" || { echo "$N: patch does not apply"; exit 2; }
(cd "$D/repo" && go test -vet=off -count=1 ./... >/dev/null 2>&1) || echo "$N: repository tests FAIL with this change"
bad=0
for i in 01 02 03 04 05 06 07 08 09 10 11 12 13 14 15 16 17 18 19 20; do
  out="$(cd "$D/verif" && VERIF_REPO="$D/repo" ./run.sh C$i quick 2>&1)"; rc=$?
  if [ $rc -ne 0 ] || echo "$out" | grep -q "^VIOLATION"; then bad=1; echo "$N: C$i NOT SILENT (rc=$rc)"; echo "$out" | grep -A3 "^---" | head -12 | cut -c1-300; fi
done
git -C "$D/repo" checkout -q -- . ; git -C "$D/repo" clean -fdq
[ $bad -eq 0 ] && echo "$N: all 20 checks silent"
exit $bad
