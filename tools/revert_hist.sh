#!/bin/bash
# tools/revert_hist.sh <commit>:<check>[,<check>] ...
# For "fix:" commits whose lines were rewritten by later fixes (git revert no longer applies): run the
# check against /repo's tree AT the commit and at its PARENT in the scratch mirror ${EVD:-/tmp/ev5}. The two
# trees differ by exactly that repair, and the checks are deterministic, so whatever the parent tree shows in
# addition - a violation key that the commit's tree does not show, or more failing cases - is that
# repair's defect. (Both trees still contain the defects repaired later, so neither run is silent.)
set -u
cd "$(dirname "$0")/.."
export GOFLAGS=-mod=mod GOPROXY=off GOSUMDB=off GOTOOLCHAIN=local
D="${EVD:-/tmp/ev5}"
tools/alt_sync.sh "$D" || exit 2
OUT=selftest/revert_hist_report.txt
fail=0
runat() { # <commit-ish> <check>  -> prints "rc failures keys..."
  git -C "$D/repo" checkout -q --detach "$1" || return 2
  rm -rf "$D/verif/violations/$2"
  out="$(cd "$D/verif" && VERIF_HANG_S=20 VERIF_REPO="$D/repo" ./run.sh "$2" quick 2>/dev/null)"; rc=$?
  f="$(echo "$out" | grep -o 'failures=[0-9]*' | head -1 | cut -d= -f2)"
  keys="$(cat "$D/verif/violations/$2"/*.json 2>/dev/null | jq -r '.key' 2>/dev/null | sort -u | tr '\n' ' ')"
  echo "$rc ${f:-0} $keys"
}
for spec in "$@"; do
  c="${spec%%:*}"; checks="${spec#*:}"
  subj="$(git -C /repo log -1 --format=%s "$c")"
  for chk in ${checks//,/ }; do
    a="$(runat "$c" "$chk")"; b="$(runat "$c^" "$chk")"
    rca="${a%% *}"; rest="${a#* }"; fa="${rest%% *}"; ka=" ${rest#* } "
    rcb="${b%% *}"; rest="${b#* }"; fb="${rest%% *}"; kb="${rest#* }"
    new=""
    for k in $kb; do case "$ka" in *" $k "*) ;; *) new="$new $k";; esac; done
    if [ "$rcb" = 1 ] && { [ -n "$new" ] || [ "$fb" -gt "$fa" ]; }; then res="DETECTED"; else res="MISSED"; fail=1; fi
    echo "$c $chk $res (tree at the commit: $fa failing cases; at its parent: $fb; keys only at the parent:${new:- none}) | $subj" | tee -a "$OUT"
  done
done
git -C "$D/repo" checkout -q --detach "$(git -C /repo rev-parse HEAD)"
exit $fail
