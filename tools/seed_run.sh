#!/bin/bash
# tools/seed_run.sh <seed-name e.g. C01-1> <check> [check...] : apply the stored seeded change to /repo,
# run the given quick checks, restore /repo. Prints detected/missed per check and updates meta.json.
set -u
cd "$(dirname "$0")/.."
export GOFLAGS=-mod=mod GOPROXY=off GOSUMDB=off GOTOOLCHAIN=local
S="$1"; shift
[ -z "$(git -C /repo status --porcelain)" ] || { echo "/repo not clean"; exit 2; }
git -C /repo apply "/verif/seeded/$S/patch.diff" || exit 2
res=""
for chk in "$@"; do
  out="$(./run.sh "$chk" quick 2>/dev/null)"; rc=$?
  if [ $rc -eq 1 ] && echo "$out" | grep -q "^VIOLATION property=$chk "; then r=detected; elif [ $rc -eq 0 ]; then r=missed; else r="error(rc=$rc)"; fi
  res="$res $chk=$r"
done
git -C /repo checkout -q -- . ; git -C /repo clean -fdq
python3 - "seeded/$S/meta.json" "$res" <<'PY'
import json,sys
p,res=sys.argv[1:3]
m=json.load(open(p))
qc=m.setdefault("quick_checks",{})
for kv in res.split():
    k,v=kv.split('='); qc[k]=v
json.dump(m,open(p,'w'),indent=1)
PY
echo "$S:$res"
