#!/bin/bash
# tools/seed_run.sh <seed-name e.g. C01-1> <check> [check...] : apply the stored seeded change to the
# scratch worktree ${EVD:-/tmp/ev}/repo (a mirror of /verif at ${EVD:-/tmp/ev}/verif is built against it), run the given
# quick checks there, restore the worktree. /repo and /verif/evidence are not touched.
set -u
cd "$(dirname "$0")/.."
export GOFLAGS=-mod=mod GOPROXY=off GOSUMDB=off GOTOOLCHAIN=local
S="$1"; shift
tools/alt_sync.sh "${EVD:-/tmp/ev}" || exit 2
[ -z "$(git -C ${EVD:-/tmp/ev}/repo status --porcelain)" ] || { git -C ${EVD:-/tmp/ev}/repo checkout -q -- . ; git -C ${EVD:-/tmp/ev}/repo clean -fdq; }
git -C ${EVD:-/tmp/ev}/repo apply "/verif/seeded/$S/patch.diff" || exit 2
res=""
for chk in "$@"; do
  out="$(cd ${EVD:-/tmp/ev}/verif && VERIF_HANG_S=40 VERIF_REPO=${EVD:-/tmp/ev}/repo ./run.sh "$chk" quick 2>/dev/null)"; rc=$?
  if [ $rc -eq 1 ] && echo "$out" | grep -q "^VIOLATION property=$chk "; then r=detected; elif [ $rc -eq 0 ]; then r=missed; else r="error(rc=$rc)"; fi
  res="$res $chk=$r"
done
git -C ${EVD:-/tmp/ev}/repo checkout -q -- . ; git -C ${EVD:-/tmp/ev}/repo clean -fdq
python3 - "seeded/$S/meta.json" "$res" <<'PY'
import json,sys
p,res=sys.argv[1:3]
m=json.load(open(p))
qc=m.setdefault("quick_checks",{})
for kv in res.split():
    k,v=kv.split('=',1); qc[k]=v
json.dump(m,open(p,'w'),indent=1)
PY
echo "$S:$res"
