#!/bin/bash
# ./run.sh <Cxx> <quick|thorough>   |  ./run.sh replay <file>  |  ./run.sh setup
# Rebuilds the harness against /repo's current working tree and runs one check.
set -u
cd "$(dirname "$0")"
export GOFLAGS=-mod=mod GOPROXY=off GOSUMDB=off GOTOOLCHAIN=local
export VERIF_DIR="$(pwd)"
mkdir -p bin evidence
build() {
  go build -o bin/vcheck ./cmd/vcheck 2> bin/build.log || { cat bin/build.log >&2; echo "BUILD-FAILED: harness does not compile against /repo" >&2; exit 2; }
}
case "${1:-}" in
  setup)
    build
    go build -o bin/vinstr ./cmd/vinstr 2>/dev/null || true
    exit 0;;
  replay)
    build
    exec bin/vcheck replay "$2";;
  *)
    build
    exec bin/vcheck "$1" "${2:-quick}";;
esac
