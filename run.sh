#!/bin/bash
# ./run.sh <Cxx> <quick|thorough>   |  ./run.sh replay <file>  |  ./run.sh setup
# Rebuilds the harness against /repo's current working tree and runs one check.
set -u
cd "$(dirname "$0")"
export GOFLAGS=-mod=mod GOPROXY=off GOSUMDB=off GOTOOLCHAIN=local
export VERIF_DIR="$(pwd)"
REPO="${VERIF_REPO:-/repo}"
mkdir -p bin evidence
build_plain() {
  go build -o bin/vcheck ./cmd/vcheck 2> bin/build.log || { cat bin/build.log >&2; echo "BUILD-FAILED: harness does not compile against $REPO" >&2; exit 2; }
}
# instrumented build: the package is rewritten into a scratch directory and compiled through
# go build -overlay; /repo itself is never touched.
build_instr() {
  go build -o bin/vinstr ./cmd/vinstr 2> bin/build-vinstr.log || { cat bin/build-vinstr.log >&2; return 1; }
  WORK="$(mktemp -d)"; trap 'rm -rf "$WORK"' EXIT
  bin/vinstr "$REPO" "$WORK/ov" > bin/vinstr.log 2>&1 || { cat bin/vinstr.log >&2; return 1; }
  go build -tags instr -overlay "$WORK/ov/overlay.json" -o bin/vcheck-instr ./cmd/vcheck 2> bin/build-instr.log || { cat bin/build-instr.log >&2; return 1; }
  return 0
}
needs_instr() { case "$1" in C01|C03|C09) return 0;; *) return 1;; esac; }
case "${1:-}" in
  setup)
    build_plain
    build_instr || echo "warning: instrumented build failed" >&2
    go build -race -o bin/vrace ./cmd/vrace 2>/dev/null || true
    exit 0;;
  replay)
    build_plain
    BIN=bin/vcheck
    if grep -q '"property": "C0[139]"' "$2" 2>/dev/null && build_instr; then BIN=bin/vcheck-instr; fi
    "$BIN" replay "$2"; exit $?;;
  *)
    build_plain
    BIN=bin/vcheck
    if needs_instr "$1"; then
      if build_instr; then BIN=bin/vcheck-instr; else echo "warning: instrumented build failed, running the plain build" >&2; fi
    fi
    if [ "$1" = C09 ]; then
      # leg B: the same thread bodies, free-running, under the race detector
      if go build -race -o bin/vrace ./cmd/vrace 2> bin/build-vrace.log; then export VERIF_VRACE="$(pwd)/bin/vrace"; else cat bin/build-vrace.log >&2; fi
    fi
    "$BIN" "$1" "${2:-quick}"; exit $?;;
esac
